#!/bin/bash
# Environment check + small self-tests.  Builds nothing: "rebuild from the working tree" is the import of the
# current sources of /repo/src in a fresh interpreter by every check.
set -e
HERE="$(cd "$(dirname "${BASH_SOURCE[0]}")" && pwd)"
cd "$HERE"
PY="${VERIF_PYTHON:-/venv/bin/python}"
test -x "$PY" || { echo "HARNESS $PY missing"; exit 3; }
REPO="${VERIF_REPO:-/repo}"
PYTHONDONTWRITEBYTECODE=1 PYTHONPATH="$HERE" "$PY" -W ignore -c "
import sys
from sim import host
host.bootstrap('$REPO')
import exactly_lib
print('exactly_lib from', exactly_lib.__file__)
"
mkdir -p "$HERE/evidence"
if [ "${VERIF_SETUP_SELFTEST:-1}" = "1" ]; then
  "$PY" selftest/determinism.py --runs 100
  if [ -f selftest/fidelity.py ]; then "$PY" -W ignore selftest/fidelity.py; fi
fi
echo "setup ok"
