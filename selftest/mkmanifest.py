import json
NA = {
 'C05': 'Text matchers/transformers: verdict/output is a pure function of (text, expression); no schedule, clock, fault, peer or history. The only environment-dependent facet (source kind, buffer size, caching) is decided under C14.',
 'C06': 'Expression grammar: parse structure and value are pure functions of the expression text; precedence/associativity/layout over all host types is input enumeration, not simulation.',
 'C07': 'File structure/merging/inclusion/source locations: a pure function of the files\' text and the static inclusion graph; no fault or ordering dimension beyond the input itself.',
 'C08': 'Symbols (visibility, single definition, typing, substitution): static semantics of the program text in fixed execution order; deterministic, no peer/time/fault involved.',
 'C09': 'String syntax/tokenisation: a pure tokenizer property over input strings.',
 'C12': 'Path relativity and write protection of home: resolution and restriction checking are pure functions of (syntax, symbol chain); nothing for a scheduler or fault injector to decide.',
 'C13': 'filter line selection / interval analysis: a pure function of (matcher expression, text); the read-ahead optimisation has no fault or timing behaviour, only a result.',
 'C15': 'FILE-LIST population and files/file matchers: pure functions of (list, tree) over a deterministic local file system; the quantifier contains no fault.',
 'C18': 'Mistakes are reported as such: robustness to arbitrary input text is fuzzing / grammar-based generation; nothing for a scheduler or fault injector to decide.',
 'C20': 'Help consistency and HTML links: static consistency of two tables and a document; no execution behaviour at all.',
}
PENDING = {}
import sys
checks = json.load(open('/verif/selftest/checks.json'))
m = {
 'version': 1,
 'setup_cmd': './setup.sh',
 'hooks': {'guard': 'EXACTLY_VERIF', 'enable': 'none needed: every seam is reached from outside /repo (subprocess.Popen rebinding, constructor parameters of MainProgram / processors.Configuration, module-global datetime rebinding, tempfile.mkdtemp); no code in /repo reads the guard',
           'baseline_off_cmd': 'cd /repo && /venv/bin/python -m pytest -ra -q -p no:cacheprovider --timeout=900 --continue-on-collection-errors',
           'source_commits': [], 'add_only': True},
 'engines': [{'name': 'exactly-sim', 'path': '/verif/sim', 'serves_properties': [c['property_id'] for c in checks],
              'kind_free_text': 'deterministic simulation with fault injection: Exactly runs in-process on top of simulated child processes (SimPopen), a simulated clock, a deterministic sandbox resolver, cooperative fault points (sim-fault instruction, FaultableActor) and a planned-OSError seam; one seed decides every generated case, child behaviour, fault and knob; oracles are reference models evaluated on the recorded event history; failures are shrunk to a JSON plan that replays exactly'}],
 'checks': checks,
 'not_applicable': [{'property_id': k, 'reason': v} for k, v in sorted(NA.items())] ,
 'notes': 'See DESIGN.md. Exit codes of ./check: 0 held, 1 VIOLATION, 3 harness error (never counts as a verdict). known_findings.json lists recorded genuine defects.',
}
pend = json.load(open('/verif/selftest/pending.json'))
for k, v in sorted(pend.items()):
    m['not_applicable'].append({'property_id': k, 'reason': v})
m['not_applicable'].sort(key=lambda x: x['property_id'])
json.dump(m, open('/verif/MANIFEST.json', 'w'), indent=1)
