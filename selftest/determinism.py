#!/venv/bin/python
"""Determinism self-test (DESIGN §3.1): for each engine, the same run seeds are executed
 (a) in a 16-worker pool under PYTHONHASHSEED=0,
 (b) again in the same configuration (same seed twice),
 (c) in a 3-worker pool in fresh interpreters under another PYTHONHASHSEED,
and every per-chunk digest (sha256 over the event-log digests of 50 consecutive runs) must be identical.

usage: selftest/determinism.py [--runs N] [PROPERTY ...]
"""
import os
import subprocess
import sys

VERIF = os.path.dirname(os.path.dirname(os.path.abspath(__file__)))
ALL = ['C01', 'C02', 'C03', 'C04', 'C10', 'C11', 'C14', 'C16', 'C17', 'C19']


def digests(prop, runs, jobs, hashseed, start):
    env = dict(os.environ, PYTHONHASHSEED=str(hashseed), VERIF_JOBS=str(jobs))
    p = subprocess.run([os.path.join(VERIF, 'check'), prop, '--digest-only', '--runs', str(runs), '--no-evidence',
                        '--no-shrink', '--no-confirm', '--start', str(start)],
                       stdout=subprocess.PIPE, stderr=subprocess.STDOUT, env=env, cwd=VERIF)
    out = p.stdout.decode(errors='replace')
    d = [l for l in out.split('\n') if l.startswith('DIGEST ')]
    if p.returncode == 3 or not d:
        print(out[-2000:])
        raise SystemExit('HARNESS determinism self-test could not run %s' % prop)
    return d


def main():
    args = sys.argv[1:]
    runs = 200
    start = 0
    props = []
    while args:
        a = args.pop(0)
        if a == '--runs':
            runs = int(args.pop(0))
        elif a == '--start':
            start = int(args.pop(0))
        else:
            props.append(a.upper())
    props = props or [p for p in ALL if os.path.exists(os.path.join(VERIF, 'engines', p.lower() + '.py'))]
    bad = 0
    for prop in props:
        a = digests(prop, runs, 16, 0, start)
        b = digests(prop, runs, 16, 0, start)
        c = digests(prop, runs, 3, 987654321, start)
        ok = a == b == c
        print('%s determinism over %d runs x 3 configurations: %s' % (prop, runs, 'identical' if ok else 'DIVERGED'))
        if not ok:
            bad += 1
            for x, y, z in zip(a, b, c):
                if not (x == y == z):
                    print('   ', x, '|', y, '|', z)
                    break
    sys.exit(1 if bad else 0)


if __name__ == '__main__':
    main()
