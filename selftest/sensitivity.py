#!/venv/bin/python
"""Sensitivity self-test (DESIGN §3.2): apply one small semantic mutation at a time to a scratch copy of
/repo/src, run the relevant quick check against the copy, expect exit 1 with a VIOLATION for that property.

usage: selftest/sensitivity.py [PROPERTY ...] [--only ID] [--tier quick] [--keep-going]
Mutants: selftest/mutants.json  [{id, property, file (under src/), old, new, note}]
Seeded changes written by independent sub-agents (/verif/seeded/<id>/patch.diff) are run with --seeded.
"""
import json
import os
import shutil
import subprocess
import sys
import tempfile

VERIF = os.path.dirname(os.path.dirname(os.path.abspath(__file__)))


def run_check(prop, repo, tier, extra_env=None):
    env = dict(os.environ, VERIF_REPO=repo, VERIF_SHRINK_BUDGET='40')
    env.update(extra_env or {})
    p = subprocess.run([os.path.join(VERIF, 'check'), prop, '--tier', tier, '--no-evidence'],
                       stdout=subprocess.PIPE, stderr=subprocess.STDOUT, env=env, cwd=VERIF)
    return p.returncode, p.stdout.decode(errors='replace')


def main():
    args = sys.argv[1:]
    tier = 'quick'
    only = None
    seeded = False
    refactorings = False
    props = []
    while args:
        a = args.pop(0)
        if a == '--tier':
            tier = args.pop(0)
        elif a == '--only':
            only = args.pop(0)
        elif a == '--seeded':
            seeded = True
        elif a == '--refactorings':
            refactorings = True
        else:
            props.append(a.upper())
    scratch = tempfile.mkdtemp(prefix='exactly-mut-')
    results = []
    try:
        copy = os.path.join(scratch, 'repo')
        os.makedirs(copy)
        if seeded:
            jobs = []
            sd = os.path.join(VERIF, 'seeded')
            for d in sorted(os.listdir(sd)) if os.path.isdir(sd) else []:
                meta = json.load(open(os.path.join(sd, d, 'meta.json')))
                if props and meta['property'] not in props:
                    continue
                if only and d != only:
                    continue
                jobs.append({'id': d, 'property': meta['property'], 'patch': os.path.join(sd, d, 'patch.diff'),
                             'checks': meta.get('checks') or [meta['property']]})
        else:
            src = 'refactorings.json' if refactorings else 'mutants.json'
            jobs = [m for m in json.load(open(os.path.join(VERIF, 'selftest', src)))
                    if (not props or m['property'] in props or set(m.get('checks', [])) & set(props))
                    and (not only or m['id'] == only)]
        for m in jobs:
            if os.path.exists(os.path.join(copy, 'src')):
                shutil.rmtree(os.path.join(copy, 'src'))
            shutil.copytree('/repo/src', os.path.join(copy, 'src'),
                            ignore=shutil.ignore_patterns('__pycache__', '*.pyc'))
            if 'patch' in m:
                p = subprocess.run(['patch', '-p1', '-s', '-i', m['patch']], cwd=copy, stdout=subprocess.PIPE,
                                   stderr=subprocess.STDOUT)
                if p.returncode != 0:
                    results.append((m['id'], m['property'], 'PATCH-FAILED', p.stdout.decode()[-300:]))
                    print(results[-1])
                    continue
            else:
                missing = False
                for ed in m.get('edits') or [m]:
                    f = os.path.join(copy, 'src', ed['file'])
                    s = open(f).read()
                    if s.count(ed['old']) < 1:
                        missing = True
                        break
                    s = s.replace(ed['old'], ed['new'], 1)
                    open(f, 'w').write(s)
                if missing:
                    results.append((m['id'], m['property'], 'PATTERN-NOT-FOUND', ''))
                    print(results[-1])
                    continue
            verdicts = []
            for prop in m.get('checks') or [m['property']]:
                code, out = run_check(prop, copy, tier)
                rules = sorted({l.split('rule=')[1].split()[0] for l in out.split('\n') if l.strip().startswith('rule=')})
                verdicts.append((prop, code, rules, out))
            caught = [v for v in verdicts if v[1] == 1]
            status = 'CAUGHT' if caught else ('HARNESS' if any(v[1] == 3 for v in verdicts) else 'SURVIVED')
            if m.get('expect') == 'green':
                # a behaviour-preserving refactoring: every listed check must stay green (no false alarm)
                status = 'GREEN' if all(v[1] == 0 for v in verdicts) else 'FALSE-ALARM'
            detail = '; '.join('%s exit=%d rules=%s' % (v[0], v[1], ','.join(v[2])) for v in verdicts)
            results.append((m['id'], m['property'], status, detail))
            print('%-9s %-4s %-40s %s' % (status, m['property'], m['id'], detail), flush=True)
            if status not in ('CAUGHT', 'GREEN'):
                print('    ' + '\n    '.join(verdicts[0][3].strip().split('\n')[-8:]))
    finally:
        shutil.rmtree(scratch, ignore_errors=True)
    n = len(results)
    c = sum(1 for r in results if r[2] in ('CAUGHT', 'GREEN'))
    print('caught / green %d of %d' % (c, n))
    sys.exit(0 if c == n else 1)


if __name__ == '__main__':
    main()
