#!/bin/bash
# usage: /tmp/baseline_wt.sh <worktree-dir>   -- runs the pinned baseline test suite in the worktree and reports
# how many of the 155 "stable pass" tests pass (must be 155 of 155).
WT="$1"
cd "$WT" && /venv/bin/python -m pytest -ra -q -p no:cacheprovider --timeout=900 --continue-on-collection-errors --junitxml=/tmp/baseline.$$.xml > /tmp/baseline.$$.log 2>&1
/venv/bin/python - "$$" <<'PY'
import json, sys, xml.etree.ElementTree as ET
pid=sys.argv[1]
b=json.load(open('/root/.vp/BASELINE.json'))
stable=set(b['stable_pass'])
root=ET.parse('/tmp/baseline.%s.xml'%pid).getroot()
passed=set()
for tc in root.iter('testcase'):
    name=tc.get('classname')+'::'+tc.get('name')
    if not any(c.tag in ('failure','error','skipped') for c in tc):
        passed.add(name)
print('stable_pass', len(stable), 'of which pass now', len(stable & passed), 'missing', sorted(stable-passed)[:5])
PY
rm -f /tmp/baseline.$$.xml /tmp/baseline.$$.log
