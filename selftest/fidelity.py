#!/venv/bin/python
"""Seam-fidelity self-test (DESIGN §2.3): a dozen fixed cases are run twice through the CLI, once with the real
`subprocess` against a tiny real probe script (sim/realprobe.py: prints argv/stdin/cwd/env as JSON, exits with a
given code, sleeps on demand) and once with SimPopen scripted to answer the same way; the observable outcomes
(verdict, recorded argv / stdin / cwd / env delta, result/ contents, HARD_ERROR on timeout with the child dead
afterwards) must agree.  A disagreement is a harness error to be fixed in the stub, never a finding.
Not part of any check.  Exit 0 = faithful, 3 = not.
"""
import json
import os
import shutil
import subprocess
import sys
import tempfile
import time

VERIF = os.path.dirname(os.path.dirname(os.path.abspath(__file__)))
sys.path.insert(0, VERIF)
from sim import host, world as world_mod, kernel, patches  # noqa: E402

PROBE = os.path.join(VERIF, 'sim', 'realprobe.py')

CASES = {
    'argv_stdin_cwd': ('[setup]\ndef list L = l1 \'l 2\'\ndir d1\ncd d1\nrun -python @[PROBE]@ out1.json 0 a "b c" @[L]@ \'\'\n  -stdin "the stdin"\n'
                       '[act]\n-python @[PROBE]@ out2.json 7 actarg\n[assert]\nexit-code == 7\n', 0),
    'nonzero_exit_in_setup': ('[setup]\nrun -python @[PROBE]@ out1.json 3\n[act]\n-python @[PROBE]@ out2.json 0\n', 128),
    'nonzero_exit_in_assert': ('[act]\n-python @[PROBE]@ out2.json 0\n[assert]\nrun -python @[PROBE]@ out1.json 3\n', 32),
    'env_sets': ('[setup]\nenv -of act ONLY_ACT = a\nenv -of !act ONLY_OTHER = o\nenv BOTH = "b-${SIMBASE_A}"\n'
                 'run -python @[PROBE]@ out1.json 0\n[act]\n-python @[PROBE]@ out2.json 0\n', 0),
    'stdout_capture': ('[act]\n-python @[PROBE]@ out2.json 0 --print "hello out" --eprint "hello err"\n'
                       '[assert]\nstdout equals <<EOF\nhello out\nEOF\nstderr equals <<EOF\nhello err\nEOF\n', 0),
    'stdin_accumulated_with_program_part': ('[setup]\ndef program P = -python @[PROBE]@ out1.json 0\n  -stdin "first "\nrun @ P\n'
                                            '  -stdin -stdout-from -python @[PROBE]@ out3.json 0 --print second\n'
                                            '[act]\n-python @[PROBE]@ out2.json 0\n', 0),
    'child_cd_does_not_move_the_test': ('[setup]\n$ cd / && pwd > /dev/null\nrun -python @[PROBE]@ out1.json 0\n'
                                        '[act]\n-python @[PROBE]@ out2.json 0\n', 0),
    # the operating system refuses to start the program of the action: HARD_ERROR, cleanup still runs
    'program_cannot_be_started': ('[act]\n% no-such-program-anywhere-on-the-path\n[cleanup]\nrun -python @[PROBE]@ out1.json 0\n', 128),
    # a program that is used as a text: its exit code does not matter with -ignore-exit-code, what it writes on the other
    # channel goes nowhere
    'text_from_failing_program': ('[setup]\nfile t.txt = -stderr-from -ignore-exit-code -python @[PROBE]@ out1.json 3 --print "on stdout" --eprint "on stderr"\n'
                                  '[act]\n-python @[PROBE]@ out2.json 0\n[assert]\ncontents t.txt : equals <<EOF\non stderr\nEOF\n', 0),
    # a transformer program gets the text on its stdin; the action gets the stdin set in [setup]
    'stdin_of_transformer_and_action': ('[setup]\nstdin = "for the action"\n[act]\n-python @[PROBE]@ out2.json 0 --print "line"\n[assert]\n'
                                        'stdout -transformed-by run -python @[PROBE]@ out1.json 0 --print "replaced"\n  equals <<EOF\nreplaced\nEOF\n', 0),
    'timeout_kills': ('[setup]\ntimeout = 1\n[act]\n-python @[PROBE]@ out2.json 0 --sleep 30\n[cleanup]\nrun -python @[PROBE]@ out1.json 0\n', 128),
}


def run_real(name, text, scratch):
    w = world_mod.World(os.path.join(scratch, 'real-' + name))
    w.write('home/t.case', text.replace('@[PROBE]@', PROBE).replace('out1.json', os.path.join(w.io, 'out1.json'))
            .replace('out2.json', os.path.join(w.io, 'out2.json')).replace('out3.json', os.path.join(w.io, 'out3.json')))
    env = dict(world_mod.FIXED_ENVIRON, PYTHONPATH=os.path.join(os.environ.get('VERIF_REPO') or '/repo', 'src'),
               TMPDIR=w.tmp)
    t0 = time.time()
    p = subprocess.run([sys.executable, '-W', 'ignore', '-c',
                        'import sys\nfrom exactly_lib.cli_default import default_main_program_setup as d\nsys.exit(d.main())',
                        't.case'], cwd=w.home, env=env, stdout=subprocess.PIPE, stderr=subprocess.PIPE, timeout=60,
                       input=b'text waiting on the stdin of the Exactly process\n')
    wall = time.time() - t0
    recs = {}
    for k in ('out1', 'out2', 'out3'):
        f = os.path.join(w.io, k + '.json')
        if os.path.exists(f):
            recs[k] = json.load(open(f))
    return {'exit': p.returncode, 'ident': p.stdout.decode().strip(), 'recs': recs, 'wall': wall,
            'leftover': sorted(os.listdir(w.tmp)), 'w': w}


def run_sim(name, text, scratch, real):
    w = world_mod.World(os.path.join(scratch, 'sim-' + name))
    w.write('home/t.case', text.replace('@[PROBE]@', PROBE))
    # script the simulated python to answer like the real probe: exit code = argv[3]; --print / --eprint / --sleep
    procs = {}
    py = os.path.basename(sys.executable)
    sim = kernel.Sim({'procs': procs}, w)

    class Scripted(dict):
        """behaviour table that derives the behaviour from the argv of the probe"""

    # we cannot know argv in advance per spawn with a static table: use one table entry per distinct out-file
    # by running the simulation with a behaviour hook
    from sim import procs as procs_mod
    orig_init = procs_mod.SimPopen._init

    def hooked(self, args, stdin, stdout, stderr, shell, cwd, env, *fds):
        a = list(args) if not isinstance(args, str) else args.split()
        b = {'exit': 0}
        if a and 'no-such-program' in a[0]:
            b['spawn_error'] = 'ENOENT'  # (what the operating system says to the real one)
        if PROBE in a:
            i = a.index(PROBE)
            b['exit'] = int(a[i + 2])
            rest = a[i + 3:]
            if '--print' in rest:
                b['stdout'] = rest[rest.index('--print') + 1] + '\n'
            if '--eprint' in rest:
                b['stderr'] = rest[rest.index('--eprint') + 1] + '\n'
            if '--sleep' in rest:
                b['duration'] = float(rest[rest.index('--sleep') + 1])
        kernel.cur().procs[procs_mod.tag_of(args, shell)] = b
        return orig_init(self, args, stdin, stdout, stderr, shell, cwd, env, *fds)

    procs_mod.SimPopen._init = hooked
    try:
        with patches.installed(sim):
            res = host.run_cli(sim, ['t.case'])
            leftover = w.tmp_entries()
    finally:
        procs_mod.SimPopen._init = orig_init
    recs = {}
    for s in sim.spawns:
        a = s['args'] if not isinstance(s['args'], str) else s['args'].split()
        if PROBE in a:
            i = a.index(PROBE)
            key = a[i + 1].replace('.json', '')
            sbx = sim.sandboxes[0] if sim.sandboxes else ''
            recs[key] = {'argv': a[i + 3:], 'stdin': s['stdin'], 'cwd': s['cwd'].replace(sbx, '$SBX'),
                         'env': {k: v for k, v in s['env'].items() if k in ('ONLY_ACT', 'ONLY_OTHER', 'BOTH', 'SIMBASE_A')}}
    return {'exit': res['exit'], 'ident': res['stdout'].strip(), 'recs': recs, 'leftover': leftover,
            'killed': [s['tag'] for s in sim.spawns if s['killed']], 'w': w}


def main():
    world_mod.install_fixed_environ()
    host.bootstrap(os.environ.get('VERIF_REPO') or '/repo')
    scratch = tempfile.mkdtemp(prefix='exactly-fidelity-')
    bad = 0
    try:
        for name, (text, want_exit) in CASES.items():
            real = run_real(name, text, scratch)
            simr = run_sim(name, text, scratch, real)
            # normalise the real records
            rr = {}
            for k, r in real['recs'].items():
                import re
                cwd = re.sub(r'^.*/tmp/exactly-[^/]+', '$SBX', r['cwd'])
                rr[k] = {'argv': r['argv'][2:], 'stdin': r['stdin'], 'cwd': cwd,
                         'env': {x: v for x, v in r['env'].items() if x in ('ONLY_ACT', 'ONLY_OTHER', 'BOTH', 'SIMBASE_A')}}
            ok = (real['exit'], real['ident']) == (simr['exit'], simr['ident']) and real['exit'] == want_exit
            if name != 'timeout_kills':
                ok = ok and rr == simr['recs']
            else:
                ok = ok and real['wall'] < 15 and simr['killed'] and 'out1' in rr and 'out1' in simr['recs']
            ok = ok and not real['leftover'] and not simr['leftover']
            print('fidelity %-40s %s' % (name, 'agree' if ok else 'DISAGREE'))
            if not ok:
                bad += 1
                print('   real:', real['exit'], real['ident'], json.dumps(rr, sort_keys=True)[:600], real['leftover'])
                print('   sim :', simr['exit'], simr['ident'], json.dumps(simr['recs'], sort_keys=True)[:600], simr['leftover'])
    finally:
        shutil.rmtree(scratch, ignore_errors=True)
    if bad:
        print('HARNESS seam fidelity self-test: %d disagreement(s)' % bad)
        sys.exit(3)
    print('seam fidelity: SimPopen and real processes agree on %d cases' % len(CASES))


if __name__ == '__main__':
    main()
