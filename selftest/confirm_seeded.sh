#!/bin/bash
# usage: selftest/confirm_seeded.sh <dir with patch.diff + demo.(sh|py) + meta.json>
# Confirms, in a scratch worktree of /repo outside /repo and /verif, that the change applies, that the pinned
# baseline still passes with it (155 of 155 stable passes), and that the demonstration fails with the change and
# passes without it.  Prints one summary line; removes the worktree afterwards.
D="$(cd "$1" && pwd)"
ID="$(basename "$D")"
WT="/tmp/confirm-$ID-$$"
git -C /repo worktree add -q --detach "$WT" HEAD || exit 3
cleanup() { git -C /repo worktree remove --force "$WT" >/dev/null 2>&1; }
trap cleanup EXIT
if ! git -C "$WT" apply "$D/patch.diff"; then echo "CONFIRM $ID: patch does not apply"; exit 1; fi
BASE="$(/verif/selftest/baseline_wt.sh "$WT" 2>&1 | tail -1)"
if [ -f "$D/demo.py" ]; then DEMO=(/venv/bin/python "$D/demo.py"); else DEMO=(bash "$D/demo.sh"); fi
timeout 180 "${DEMO[@]}" "$WT" > /tmp/confirm-$ID-with.log 2>&1; WITH=$?
timeout 180 "${DEMO[@]}" /repo > /tmp/confirm-$ID-without.log 2>&1; WITHOUT=$?
echo "CONFIRM $ID: baseline: $BASE | demo with change: exit $WITH | demo on /repo: exit $WITHOUT"
tail -3 /tmp/confirm-$ID-with.log | sed 's/^/    with   : /'
tail -1 /tmp/confirm-$ID-without.log | sed 's/^/    without: /'
rm -f /tmp/confirm-$ID-with.log /tmp/confirm-$ID-without.log
[ "$WITH" = "1" ] && [ "$WITHOUT" = "0" ]
