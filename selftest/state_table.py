#!/venv/bin/python
"""Prints the table of DESIGN §9.6 (sizes of the quick tier) from the evidence files as they stand."""
import json
import os

VERIF = os.path.dirname(os.path.dirname(os.path.abspath(__file__)))
print('| check | quick runs | of which sweep | distinct non-trivial | distinct histories | reach probes > 0 (at zero) | simulated s '
      '| runs/hour | faults fired |')
print('|---|---|---|---|---|---|---|---|---|')
for p in ['C01', 'C02', 'C03', 'C04', 'C10', 'C11', 'C14', 'C16', 'C17', 'C19']:
    e = json.load(open(os.path.join(VERIF, 'evidence', p + '.json')))
    c = e['coverage']
    fired = sum(c.get('faults_fired', {}).values())
    disk = sum(v for k, v in c.get('faults_fired', {}).items() if k.startswith('disk_'))
    probes = c.get('probes', {})
    print('| %s | %d | %d | %d | %d | %d (%d) | %d | %.2f M | %s |' % (
        p, c['evaluations'], c.get('sweep_runs', 0), c['distinct_nontrivial'], c['distinct_histories'],
        sum(1 for v in probes.values() if v), len(c.get('probes_at_zero', [])), round(c['simulated_seconds']),
        c['runs_per_hour'] / 1e6, ('%d (of which disk faults %d)' % (fired, disk)) if fired else '(peers / knobs / endings)'))
