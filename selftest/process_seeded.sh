#!/bin/bash
# usage: selftest/process_seeded.sh ID...   -- for /tmp/seeded/ID: confirm (scratch worktree, baseline, demonstration),
# copy into /verif/seeded/ID, run the property's quick check against a scratch copy with the patch applied.
cd "$(dirname "$0")/.."
for id in "$@"; do
  selftest/confirm_seeded.sh /tmp/seeded/$id 2>&1 | head -1
  mkdir -p seeded/$id && cp /tmp/seeded/$id/patch.diff /tmp/seeded/$id/meta.json seeded/$id/ && cp /tmp/seeded/$id/demo.* seeded/$id/
  selftest/sensitivity.py --seeded --only $id 2>&1 | cut -c1-300 | grep -v "^    " | head -1
done
