#!/bin/bash
# usage: selftest/soak.sh SEED [TIER] [PROP...]   -- runs the given tier (default thorough) of every check with VERIF_SEED=SEED,
# without touching the evidence files; prints one line per check and every VIOLATION / HARNESS / KNOWN-FINDING line.
SEED="$1"; TIER="${2:-thorough}"; shift; shift
PROPS=("$@"); [ ${#PROPS[@]} -eq 0 ] && PROPS=(C01 C02 C03 C04 C10 C11 C14 C16 C17 C19)
cd "$(dirname "$0")/.."
for p in "${PROPS[@]}"; do
  VERIF_SEED="$SEED" ./check "$p" --tier "$TIER" --no-evidence 2>&1 | grep -E "^(VIOLATION|HARNESS|KNOWN-FINDING|COVERAGE-WARNING|  rule=|C[0-9]+ (quick|thorough):)" | cut -c1-400
done
