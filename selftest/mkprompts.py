#!/venv/bin/python
"""usage: selftest/mkprompts.py ROUND_TAG 'N:HINTFILE' ... [--props C01,C02,...]
Writes /tmp/agent_prompt<N>_<PROP>.txt for an independent sub-agent: the text of ONE property, the path of its own
scratch worktree (/tmp/wt<N>-<PROP>), one-line summaries of the changes already delivered for that property (to
differ from) and a hint - nothing from /verif.  Creates the worktrees.  Prints the job list as JSON."""
import glob
import json
import os
import subprocess
import sys

VERIF = os.path.dirname(os.path.dirname(os.path.abspath(__file__)))
CLAIMED = ['C01', 'C02', 'C03', 'C04', 'C10', 'C11', 'C14', 'C16', 'C17', 'C19']


def main():
    args = [a for a in sys.argv[1:] if not a.startswith('--')]
    props = CLAIMED
    for a in sys.argv[1:]:
        if a.startswith('--props='):
            props = a.split('=', 1)[1].split(',')
    tmpl = open(os.path.join(VERIF, 'selftest', 'agent_prompt_tmpl.txt')).read()
    P = {}
    for line in open(os.path.join(VERIF, 'properties.jsonl')):
        p = json.loads(line)
        P[p['id']] = p
    jobs = []
    for spec in args:
        n, hintfile = spec.split(':', 1)
        hint = open(hintfile).read().strip()
        for prop in props:
            earlier = []
            for d in sorted(glob.glob(os.path.join(VERIF, 'seeded', prop + '-*'))):
                m = json.load(open(os.path.join(d, 'meta.json')))
                earlier.append('  - ' + m['summary'].replace('\n', ' ')[:330])
            extra = '\n\nNOTE: other engineers have already delivered these changes for this property:\n' + '\n'.join(earlier) + \
                    '\nProduce a DIFFERENT change: do not modify the functions those changes touched, and use a different ' \
                    'mechanism and a different trigger in another part of the code. ' + hint + ' The change must still be ' \
                    'small and look like an honest mistake, and it must break the property as stated (not merely some other behaviour).'
            wt = '/tmp/wt%s-%s' % (n, prop)
            p = P[prop]
            scratch = '/tmp/agentwork/%s-%s' % (n, prop)
            os.makedirs(scratch, exist_ok=True)
            text = tmpl.format(wt=wt, scratch=scratch, id=prop, n=n, title=p.get('title', ''), statement=p.get('statement') or p.get('text'),
                               quant=p.get('quantifier', ''), extra=extra)
            open('/tmp/agent_prompt%s_%s.txt' % (n, prop), 'w').write(text)
            if not os.path.isdir(wt):
                subprocess.run(['git', '-C', '/repo', 'worktree', 'add', '--detach', '-q', wt, 'HEAD'], check=True)
            jobs.append([n, prop])
    print(json.dumps(jobs))


if __name__ == '__main__':
    main()
