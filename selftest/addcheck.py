#!/venv/bin/python
"""usage: addcheck.py ID category 'text' 'note' 'technique'  -- registers a check and regenerates MANIFEST.json"""
import json, sys, os, subprocess
V = os.path.dirname(os.path.dirname(os.path.abspath(__file__)))
pid, cat, text, note, tech = sys.argv[1:6]
checks = json.load(open(V + '/selftest/checks.json'))
checks = [c for c in checks if c['property_id'] != pid]
checks.append({"property_id": pid, "quick_cmd": "./check %s --tier quick" % pid,
               "thorough_cmd": "./check %s --tier thorough" % pid, "evidence_file": "evidence/%s.json" % pid,
               "replay_cmd_template": "./check %s --replay {path}" % pid, "engine": "exactly-sim",
               "level_claimed": {"category": cat, "text": text, "design_ref": "DESIGN.md §4 " + pid},
               "level_note": note, "technique": tech})
checks.sort(key=lambda c: c['property_id'])
json.dump(checks, open(V + '/selftest/checks.json', 'w'), indent=1)
pend = json.load(open(V + '/selftest/pending.json'))
pend.pop(pid, None)
json.dump(pend, open(V + '/selftest/pending.json', 'w'), indent=1)
subprocess.check_call([sys.executable, V + '/selftest/mkmanifest.py'])
