#!/bin/bash
# runs the pinned baseline, prints number of stable_pass tests that passed
cd /repo && /venv/bin/python -m pytest -ra -q -p no:cacheprovider --timeout=900 --continue-on-collection-errors --junitxml=/tmp/baseline.junit.xml > /tmp/baseline.log 2>&1
/venv/bin/python - <<'PY'
import json, xml.etree.ElementTree as ET
b=json.load(open('/root/.vp/BASELINE.json'))
stable=set(b['stable_pass'])
root=ET.parse('/tmp/baseline.junit.xml').getroot()
passed=set()
for tc in root.iter('testcase'):
    name=tc.get('classname')+'::'+tc.get('name')
    if not any(c.tag in ('failure','error','skipped') for c in tc):
        passed.add(name)
print('stable_pass', len(stable), 'of which passed now', len(stable & passed), 'missing', sorted(stable-passed)[:5])
PY
tail -1 /tmp/baseline.log
