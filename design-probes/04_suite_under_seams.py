import sys, io, os, subprocess, tempfile, builtins, datetime as _dt, types, json
from exactly_lib.cli_default import default_main_program_setup as d
from exactly_lib.util.file_utils.std import StdOutputFiles
import exactly_lib.test_suite.processing as sp, exactly_lib.test_suite.reporting as srep
import exactly_lib.test_suite.reporters.simple_progress_reporter as spr, exactly_lib.test_suite.reporters.junit as sj

W=os.getcwd()
LOG=[]
class Clock: now=1000000000.0
class FakeDT(_dt.datetime):
    @classmethod
    def now(cls, tz=None): return _dt.datetime.fromtimestamp(Clock.now)
    @classmethod
    def today(cls): return cls.now()
fake = types.SimpleNamespace(datetime=FakeDT, timedelta=_dt.timedelta)
for m in (sp, srep, spr, sj): m.datetime = fake
sj.platform = types.SimpleNamespace(node=lambda: 'simhost')

class SimPopen:
    def __init__(self, args, stdin=None, stdout=None, stderr=None, env=None, shell=False, cwd=None, **kw):
        self.args=args; self.returncode=None
        LOG.append(dict(args=args, cwd=os.getcwd().replace(W,'$W'), X=(env or os.environ).get('X')))
        s=str(args)
        self._exit = int(s.split('exit')[1][:1]) if 'exit' in s else 0
    def __enter__(self): return self
    def __exit__(self,*a): self.wait()
    def wait(self, timeout=None):
        Clock.now += 1.5
        self.returncode=self._exit; return self._exit
    def kill(self): pass
    def poll(self): return self.returncode
subprocess.Popen=SimPopen
cnt=[0]
def mkdtemp(suffix=None, prefix=None, dir=None):
    cnt[0]+=1; p=os.path.join(W,'tmp','%s%04d'%(prefix or 'tmp',cnt[0])); os.makedirs(p); return p
tempfile.mkdtemp=mkdtemp
real_open=builtins.open
import io as _io
def faulty_open(file, *a, **k):
    if str(file).endswith('unreadable.case'): raise PermissionError(13,'Permission denied',str(file))
    return real_open(file,*a,**k)
_io.open=faulty_open; builtins.open=faulty_open

os.makedirs('sub',exist_ok=True)
open('root.suite','w').write('[suites]\nsub/sub.suite\n[cases]\na.case\nb.case\nunreadable.case\nsyn.case\nactsyn.case\n[setup]\n% suite-setup\n[cleanup]\n% suite-cleanup\n')
open('sub/sub.suite','w').write('[cases]\nc.case\n')
open('a.case','w').write('[setup]\nenv X = leak\ncd -rel-tmp .\ntimeout = 3\ndef string S = s\n[act]\n$ a-act\n[cleanup]\n% a-cleanup\n')
open('b.case','w').write('[setup]\ndef string S = s\n% b-probe\n[act]\n$ b-act exit2\n[assert]\nexit-code == 0\n')
real_open('unreadable.case','w').write('[act]\n$ x\n')
open('syn.case','w').write('[setup]\nnonsense\n')
open('actsyn.case','w').write('[act]\n\'unterminated\n')
open('sub/c.case','w').write('[conf]\nstatus = SKIP\n[act]\n$ c-act\n')
mp=d.default_main_program()
for rep in ([], ['--reporter','junit']):
    LOG.clear()
    out=real_open('out.txt','w+'); err=real_open('err.txt','w+')
    ec=mp.execute(['suite']+rep+['root.suite'], StdOutputFiles(out,err))
    out.seek(0); err.seek(0)
    print('EXIT',ec); print(out.read()); print('--- stderr'); print(err.read()[:1500])
    for l in LOG: print(json.dumps(l))
print(os.getcwd()==W, os.listdir('tmp'))
