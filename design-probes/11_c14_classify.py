exec(open('c14proto.py').read().split("for odd in (False, True):")[0])
import tempfile as _tf
def tr(t): return t.replace('\r\n','\n').replace('\r','\n')
def explained(op, v, exp, k=None):
    cands=[exp, tr(exp)]
    if isinstance(v,str) and v.startswith('EXC'): return False
    if op in ('str','file','write'):
        return v in cands
    outs=[]
    for x in cands:
        outs.append(ref_lines(x)); outs.append(x.splitlines(True))
    if op=='lines': return v in outs
    return any(v==o[:len(v)] for o in outs)
# re-run with write via real file
import types
src_code=open('c14proto.py').read()
unexpl=0; tot=0; ex=[]
for s in range(6000):
    r=run(s, True)
    if r[0]=='BAD':
        T=eval(r[3]); chain=r[4]; exp=T
        for c in chain:
            if c.startswith('char-case'): exp=exp.upper()
            if c.startswith('strip'): exp=exp.rstrip('\n')
        for op,v in r[6]:
            tot+=1
            if r[1]=='prog' and op=='write': continue
            if not explained(op,v,exp):
                # strip applied after translation?
                exp2=tr(T)
                for c in chain:
                    if c.startswith('char-case'): exp2=exp2.upper()
                    if c.startswith('strip'): exp2=exp2.rstrip('\n')
                if explained(op,v,exp2): continue
                unexpl+=1
                if len(ex)<8: ex.append((r[1],r[2],r[3],chain,r[5],op,v))
print('total bad obs',tot,'unexplained',unexpl)
for e in ex: print(e)
