import sys, io, os, subprocess
from exactly_lib.cli import main_program
from exactly_lib.cli.test_case_def import TestCaseDefinitionForMainProgram
from exactly_lib.cli_default.program_modes import test_suite
from exactly_lib.cli_default.program_modes.test_case import builtin_symbols, default_instructions_setup, test_case_handling_setup
from exactly_lib.common import instruction_name_and_argument_splitter
from exactly_lib.common.instruction_setup import SingleInstructionSetup
from exactly_lib.processing.instruction_setup import TestCaseParsingSetup, InstructionsSetup
from exactly_lib.processing.parse.act_phase_source_parser import ActPhaseParser
from exactly_lib.section_document.element_parsers.section_element_parsers import InstructionParser
from exactly_lib.util.file_utils.std import StdOutputFiles
from exactly_lib.test_case.phases.setup.instruction import SetupPhaseInstruction
from exactly_lib.test_case.phases.cleanup import CleanupPhaseInstruction
from exactly_lib.test_case.phases.assert_ import AssertPhaseInstruction
from exactly_lib.test_case.result import sh, svh, pfh
from exactly_lib.test_case.hard_error import HardErrorException
from exactly_lib.common.report_rendering import text_docs

TRACE=[]
PLAN={}
class SetupFault(SetupPhaseInstruction):
    def __init__(self, ident): self.ident=ident
    def symbol_usages(self):
        TRACE.append((self.ident,'symbols')); return []
    def validate_pre_sds(self, env):
        TRACE.append((self.ident,'pre_sds')); return svh.new_svh_success()
    def main(self, env, settings, os_services, sb):
        TRACE.append((self.ident,'main', os.getcwd()))
        k = PLAN.get((self.ident,'main'))
        if k=='he_raise': raise HardErrorException(text_docs.single_pre_formatted_line_object('injected'))
        if k=='exc': raise RuntimeError('injected')
        if k=='he_ret': return sh.new_sh_hard_error__str('injected')
        return sh.new_sh_success()
    def validate_post_setup(self, env):
        TRACE.append((self.ident,'post_setup')); return svh.new_svh_success()
class CleanupFault(CleanupPhaseInstruction):
    def __init__(self, ident): self.ident=ident
    def main(self, env, settings, os_services, previous_phase):
        TRACE.append((self.ident,'main', previous_phase.name)); return sh.new_sh_success()

class P(InstructionParser):
    def __init__(self, cls): self.cls=cls
    def parse(self, fs_location_info, source):
        ident = source.remaining_part_of_current_line.strip()
        source.consume_current_line()
        return self.cls(ident)

class NoDoc: pass
def mk(cls):
    return SingleInstructionSetup(P(cls), None)

d = default_instructions_setup.INSTRUCTIONS_SETUP
setup_set = dict(d.setup_instruction_set); setup_set['sim-fault']=mk(SetupFault)
cleanup_set = dict(d.cleanup_instruction_set); cleanup_set['sim-fault']=mk(CleanupFault)
isetup = InstructionsSetup(d.config_instruction_set, setup_set, d.before_assert_instruction_set, d.assert_instruction_set, cleanup_set)
roots=[]
def resolver():
    p='/tmp/scratch2/sbx-%d' % len(roots); os.mkdir(p); roots.append(p); return p
mp = main_program.MainProgram(test_case_handling_setup.setup(), resolver,
      TestCaseDefinitionForMainProgram(TestCaseParsingSetup(instruction_name_and_argument_splitter.splitter, isetup, ActPhaseParser()), builtin_symbols.ALL),
      test_suite.test_suite_definition(), 7)
open('b.case','w').write('''[setup]
sim-fault s1
file x.txt = "abc"
sim-fault s2
sim-fault s3
[act]
$ true
[cleanup]
sim-fault c1
''')
for plan in [{}, {('s2','main'):'he_raise'}, {('s2','main'):'exc'}, {('s2','main'):'he_ret'}]:
    PLAN.clear(); PLAN.update(plan); TRACE.clear()
    out=open('out.txt','w+'); err=open('err.txt','w+')
    ec = mp.execute(['b.case'], StdOutputFiles(out, err))
    out.seek(0); err.seek(0)
    print(plan, ec, repr(out.read()), [t[:3] for t in TRACE]); 
    print('  sandbox exists after:', [os.path.exists(r) for r in roots])
    print('   ', err.read()[:200].replace('\n','|'))
