import sys, io, os, subprocess, json, shutil, builtins
from exactly_lib.cli_default import default_main_program_setup as d
from exactly_lib.util.file_utils.std import StdOutputFiles
BEH={}
class SimPopen:
    def __init__(self, args, stdin=None, stdout=None, stderr=None, env=None, shell=False, cwd=None, **kw):
        self.args=args; self.returncode=None
        for h in (stdin, stdout, stderr):
            if h is not None and not isinstance(h,int): h.fileno()
        name = args.split()[0] if isinstance(args,str) else args[0]
        b=BEH.get(name,{})
        if b.get('enoent'): raise FileNotFoundError(2,'No such file',name)
        self.exit=b.get('exit',0)
        if stdout is not None and not isinstance(stdout,int): os.write(stdout.fileno(), b.get('out','').encode())
        if stderr is not None and not isinstance(stderr,int): os.write(stderr.fileno(), b.get('err','').encode())
    def __enter__(self): return self
    def __exit__(self,*a): self.wait()
    def wait(self, timeout=None): self.returncode=self.exit; return self.exit
    def kill(self): pass
subprocess.Popen=SimPopen
BEH['atc']={'exit':7,'out':'ATC-OUT\n','err':'ATC-ERR\n'}
BEH['fail']={'exit':3}
BEH['ppfail']={'exit':2,'err':'pp failed\n'}
BEH['ppok']={'exit':0,'out':'[act]\n% atc\n'}
BEH['nostart']={'enoent':True}
endings={
 'pass': ('[act]\n% atc\n[assert]\nexit-code == 7\n',[]),
 'assert-fail': ('[act]\n% atc\n[assert]\nexit-code == 0\n',[]),
 'setup-hard': ('[setup]\n% fail\n[act]\n% atc\n',[]),
 'cleanup-hard': ('[act]\n% atc\n[cleanup]\n% fail\n',[]),
 'act-nostart': ('[act]\n% nostart\n',[]),
 'validation': ('[setup]\ncopy nofile\n[act]\n% atc\n',[]),
 'syntax': ('[setup]\nnonsense\n[act]\n% atc\n',[]),
 'act-syntax': ("[act]\n'unterminated\n",[]),
 'include-missing': ('[setup]\nincluding nofile.xly\n[act]\n% atc\n',[]),
 'pp-fail': ('[act]\n% atc\n',['--preprocessor','ppfail']),
 'pp-ok': ('[act]\nignored\n',['--preprocessor','ppok']),
 'usage': ('[act]\n% atc\n',['--nonsense-option']),
}
mp=d.default_main_program()
for status in ('PASS','FAIL','SKIP'):
  for name,(body,extra) in endings.items():
    for mode in ([],['--keep'],['--act']):
        open('t.case','w').write('[conf]\nstatus = %s\n' % status + body)
        out=open('out.txt','w+'); err=open('err.txt','w+')
        ec=mp.execute(mode+extra+['t.case'], StdOutputFiles(out,err))
        out.seek(0); err.seek(0); o=out.read(); e=err.read()
        print('%-5s %-16s %-7s exit=%-3s stdout=%r stderr[:2]=%r' % (status,name,''.join(mode),ec,o[:60],e.split('\n')[:2]))
        for x in os.listdir('/tmp'):
            if x.startswith('exactly-'): shutil.rmtree('/tmp/'+x)
