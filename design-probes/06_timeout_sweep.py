import sys, io, os, subprocess, json, shutil
from exactly_lib.cli_default import default_main_program_setup as d
from exactly_lib.util.file_utils.std import StdOutputFiles
LOG=[]; CLOCK=[0.0]
class SimHang(BaseException): pass
class SimPopen:
    def __init__(self, args, stdin=None, stdout=None, stderr=None, env=None, shell=False, cwd=None, **kw):
        self.args=args; self.returncode=None; self.killed=False
        for h in (stdin, stdout, stderr):
            if h is not None and not isinstance(h,int): h.fileno()
        name = args.split()[0] if isinstance(args,str) else args[0]
        self.name=name
        self.dur = float('inf') if 'slow' in name else 0.01
        self.rec=dict(name=name, t=[]); LOG.append(self.rec)
        if stdout is not None and not isinstance(stdout,int): os.write(stdout.fileno(), b'x\n')
    def __enter__(self): return self
    def __exit__(self,*a): self.wait()
    def wait(self, timeout=None):
        if self.returncode is not None: return self.returncode
        if self.killed: self.returncode=-9; return -9
        self.rec['t'].append(timeout)
        if timeout is None:
            if self.dur==float('inf'): raise SimHang(self.name)
            CLOCK[0]+=self.dur
        elif self.dur>timeout:
            CLOCK[0]+=timeout; self.dur-=timeout
            raise subprocess.TimeoutExpired(self.args, timeout)
        else: CLOCK[0]+=self.dur
        self.returncode=0; return 0
    def kill(self): self.killed=True; self.rec['killed']=True
    def poll(self): return self.returncode
subprocess.Popen=SimPopen
open('interp-src.py','w').write('x')
sites = {
 'setup run': ('setup','run % slow'),
 'setup %': ('setup','% slow'),
 'setup $': ('setup','$ slow'),
 'setup file stdout-from': ('setup','file f = -stdout-from % slow'),
 'setup file stderr-from ign': ('setup','file f = -stderr-from -ignore-exit-code % slow'),
 'setup transformer': ('setup','file f = "abc" -transformed-by run % slow'),
 'setup env value': ('setup','env X = -stdout-from % slow'),
 'setup stdin value': ('setup','stdin = -stdout-from % slow'),
 'setup run w stdin prog': ('setup','run % fast\n  -stdin -stdout-from % slow'),
 'ba run': ('before-assert','run % slow'),
 'assert run': ('assert','run % slow'),
 'assert $': ('assert','$ slow'),
 'assert exit-code -from': ('assert','exit-code -from % slow\n == 0'),
 'assert stdout -from': ('assert','stdout -from % slow\n is-empty'),
 'assert stderr -from': ('assert','stderr -from % slow\n is-empty'),
 'assert contents matcher run': ('assert','contents -rel-act g : run % slow'),
 'assert contents transformer run': ('assert','contents -rel-act g : -transformed-by run % slow is-empty'),
 'assert exists file-matcher run': ('assert','exists -rel-act g : run % slow'),
 'assert dir-contents run': ('assert','dir-contents -rel-act . : every file : run % slow'),
 'assert stdout equals prog': ('assert','stdout equals -stdout-from % slow'),
 'cleanup run': ('cleanup','run % slow'),
 'act cmdline': ('act','% slow'),
 'act shell': ('act','$ slow'),
}
mp=d.default_main_program()
for name,(phase,instr) in sites.items():
    LOG.clear(); CLOCK[0]=0
    phases={'setup':['file g = "g"','timeout = 2','% s-probe'], 'act':['% fast-act'], 'before-assert':['% ba-probe'], 'assert':['% as-probe'], 'cleanup':['% cl-probe']}
    if phase=='act': phases['act']=[instr]
    else: phases[phase].append(instr)
    txt=''.join('[%s]\n%s\n' % (p,'\n'.join(l)) for p,l in phases.items())
    open('t.case','w').write(txt)
    out=open('out.txt','w+'); err=open('err.txt','w+')
    try:
        ec=mp.execute(['t.case'], StdOutputFiles(out,err))
    except SimHang as e:
        ec='HANG '+str(e)
    out.seek(0); err.seek(0)
    o=out.read().strip(); e=err.read()
    slow=[r for r in LOG if 'slow' in r['name']]
    names=[r['name'] for r in LOG]
    leftover=[x for x in os.listdir('/tmp') if x.startswith('exactly-')]
    print('%-34s exit=%s %s slow=%s cleanup=%s clock=%.2f leftover=%d %s' % (name, ec, o, [(r['t'],r.get('killed')) for r in slow], 'cl-probe' in names, CLOCK[0], len(leftover), e.split('\n')[0]))
    for x in leftover: shutil.rmtree('/tmp/'+x)
