#!/bin/bash
# usage: runmut.sh <file-relative-to-src> <python-snippet-transform: old|||new> <proto script>
set -e
F=/tmp/mut/src/$1
cp /repo/src/$1 $F
python3 - "$F" "$2" <<'PY'
import sys
f,spec=sys.argv[1],sys.argv[2]
old,new=spec.split('|||')
s=open(f).read()
assert s.count(old)>=1, 'pattern not found'
s=s.replace(old,new,1)
open(f,'w').write(s)
PY
cd $(dirname $3)
PYTHONDONTWRITEBYTECODE=1 PYTHONPATH=/tmp/mut/src /venv/bin/python -W ignore $3 2>&1 | tail -${4:-6}
cp /repo/src/$1 $F
