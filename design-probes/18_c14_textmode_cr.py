import os, pathlib, tempfile, random, io, shutil, sys, subprocess, collections
from exactly_lib.impls.types.string_source import parse as ss_parse
from exactly_lib.section_document.parse_source import ParseSource
from exactly_lib.util.symbol_table import SymbolTable
from exactly_lib.tcfs.tcds import TestCaseDs
from exactly_lib.tcfs.hds import HomeDs
from exactly_lib.tcfs import sds as sds_mod
from exactly_lib.test_case.app_env import ApplicationEnvironment
from exactly_lib.impls.os_services import os_services_access
from exactly_lib.util.process_execution.execution_elements import ProcessExecutionSettings
from exactly_lib.common import tmp_dir_file_spaces

PROC_OUT={}
SPAWNS=[]
class SimPopen:
    def __init__(self, args, stdin=None, stdout=None, stderr=None, env=None, shell=False, cwd=None, **kw):
        self.args=args; self.returncode=None
        for h in (stdin, stdout, stderr):
            if h is not None and not isinstance(h,int): h.fileno()
        SPAWNS.append(args)
        txt = PROC_OUT[args[0]]
        if stdout is not None and not isinstance(stdout,int):
            os.write(stdout.fileno(), txt.encode())
    def __enter__(self): return self
    def __exit__(self,*a): self.wait()
    def wait(self, timeout=None): self.returncode=0; return 0
    def kill(self): pass
subprocess.Popen=SimPopen

ALPHA_SAFE=['a','b',' ','\n','\n','.','\t']
ALPHA_ODD=['\r','\r','é']
def gen_text(rng, n, odd):
    al = ALPHA_SAFE + (ALPHA_ODD if odd else [])
    return ''.join(rng.choice(al) for _ in range(n))
def ref_lines(t):
    out=[]; cur=''
    for ch in t:
        cur+=ch
        if ch=='\n': out.append(cur); cur=''
    if cur: out.append(cur)
    return out

def run(seed, odd):
    rng=random.Random(seed)
    root=pathlib.Path(tempfile.mkdtemp(prefix='c14-'))
    try:
        home=root/'home'; home.mkdir(); sbx=root/'sbx'; sbx.mkdir()
        sds=sds_mod.construct_at(str(sbx)); tcds=TestCaseDs(HomeDs(home,home), sds)
        knob=rng.choice([1,2,3,5,8,13,64])
        n=rng.choice([0,1,knob-1,knob,knob+1,3*knob, rng.randint(0,3*knob+2)]); n=max(n,0)
        T=gen_text(rng,n,odd)
        kind=rng.choice(['file','prog','lit'] if ('\n' not in T or True) else ['file','prog'])
        if kind=='lit' and ("'" in T): kind='file'
        if kind=='file':
            (home/'src.txt').write_bytes(T.encode()); syntax='-contents-of src.txt'
        elif kind=='prog':
            PROC_OUT['p1']=T; syntax='-stdout-from % p1'
        else:
            if '\n' in T or T=='' or True:
                # here doc requires ending newline; use hard quoted string (may contain newlines?)
                syntax="'"+T+"'"
        chain=rng.choice([[],['identity'],['char-case -to-upper'],['identity','identity'], ['strip -trailing-new-lines'] ])
        exp=T if kind=='lit' else T.replace('\r\n','\n').replace('\r','\n')
        for c in chain:
            if c.startswith('char-case'): exp=exp.upper()
            if c.startswith('strip'): exp=exp.rstrip('\n')
        if chain: syntax += ' -transformed-by ( ' + ' | '.join(chain) + ' )'
        try:
            sdv=ss_parse.default_parser_for(phase_is_after_act=False).parse(ParseSource(syntax))
        except Exception as e:
            return ('parse-skip', kind, repr(e)[:60])
        adv=sdv.resolve(SymbolTable({})).value_of_any_dependency(tcds)
        space=tmp_dir_file_spaces.std_tmp_dir_file_space(sds.internal_tmp_dir/'t')
        env=ApplicationEnvironment(os_services_access.new_for_current_os(), ProcessExecutionSettings.null(), space, knob)
        src=adv.primitive(env)
        ops=[rng.choice(['str','lines','lines_part','file','write','freeze','ext']) for _ in range(rng.randint(1,8))]
        bad=[]
        for op in ops:
            c=src.contents()
            try:
                if op=='str':
                    v=c.as_str
                    if v!=exp: bad.append((op,v))
                elif op=='lines':
                    with c.as_lines as ls: v=list(ls)
                    if v!=ref_lines(exp): bad.append((op,v))
                elif op=='lines_part':
                    k=rng.randint(0,3)
                    with c.as_lines as ls:
                        v=[]
                        for i,l in enumerate(ls):
                            if i>=k: break
                            v.append(l)
                    if v!=ref_lines(exp)[:k]: bad.append((op,v))
                elif op=='file':
                    v=c.as_file.open().read()
                    if v!=exp: bad.append((op,v))
                elif op=='write':
                    import tempfile as _t
                    with _t.TemporaryFile('w+',newline='') as s_: c.write_to(s_); s_.seek(0); v=s_.read()
                    if v!=exp: bad.append((op,v))
                elif op=='freeze': src.freeze()
                elif op=='ext': c.may_depend_on_external_resources
            except Exception as e:
                bad.append((op,'EXC '+repr(e)[:80]))
        if bad:
            return ('BAD', kind, knob, repr(T), chain, ops, bad[:2])
        return ('ok',kind)
    finally:
        shutil.rmtree(root)

for odd in (False, True):
    cnt=collections.Counter(); ex=[]
    for s in range(4000):
        r=run(s, odd)
        cnt[r[0]+'/'+str(r[1])]+=1
        if r[0]=='BAD' and len(ex)<12: ex.append(r)
    print('odd' if odd else 'safe', dict(cnt))
    for e in ex: print('   ', e)
