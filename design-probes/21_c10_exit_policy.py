exec(open('c10proto.py').read().split("HOME=os.getcwd()")[0])
mp=d.default_main_program()
def run(txt, argv=['t.case']):
    open('t.case','w').write(txt); LOG.clear()
    out=open('out.txt','w+'); err=open('err.txt','w+')
    ec=mp.execute(argv, StdOutputFiles(out,err)); out.seek(0); err.seek(0)
    return ec, out.read().strip(), err.read()
BEH['f3']={'exit':3,'out':'O3\n','err':'E3\n'}
# policy table
rows=[]
for phase in ('setup','before-assert','assert','cleanup'):
    for form in ('run % f3','% f3','$ f3','run -ignore-exit-code % f3','file x = -stdout-from % f3','file x = -stdout-from -ignore-exit-code % f3','file x = -stderr-from % f3','file x = -stderr-from -ignore-exit-code % f3'):
        txt='[act]\n%% atc\n[%s]\n%s\n' % (phase, form)
        ec,o,e=run(txt); rows.append((phase,form,ec,o))
for r in rows: print('%-14s %-48s %s %s' % r)
# capture sweep
bad=0
for e_ in range(256):
    BEH['atc']={'exit':e_,'out':'out-%d\n'%e_,'err':'err-%d\n'%e_}
    txt='[act]\n%% atc\n[assert]\nexit-code == %d\nstdout equals <<E\nout-%d\nE\nstderr equals <<E\nerr-%d\nE\n' % (e_,e_,e_)
    ec,o,e=run(txt)
    txt2='[act]\n%% atc\n[assert]\nexit-code != %d\n' % e_
    ec2,o2,e2=run(txt2)
    if (ec,ec2)!=(0,32): bad+=1; print('capture bad',e_,ec,ec2)
print('capture bad',bad)
