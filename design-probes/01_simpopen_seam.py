import sys, io, os, subprocess, time, json
from exactly_lib.cli_default import default_main_program_setup as d
from exactly_lib.util.file_utils.std import StdOutputFiles

LOG=[]
class SimClock:
    now=0.0
CLOCK=SimClock()

class SimPopen:
    def __init__(self, args, stdin=None, stdout=None, stderr=None, env=None, shell=False, cwd=None, **kw):
        self.args=args
        self.returncode=None
        stdin_txt=None
        if stdin is not None and stdin != subprocess.DEVNULL:
            if hasattr(stdin,'read'):
                stdin_txt = open(stdin.name).read() if hasattr(stdin,'name') else stdin.read()
        LOG.append(dict(args=args, shell=shell, cwd=cwd or os.getcwd(), env_is_none=env is None,
                        stdin=stdin_txt, kw=sorted(kw)))
        self._dur = 100.0 if 'slow' in str(args) else 0.5
        self._killed=False
        if stdout not in (None, subprocess.DEVNULL):
            stdout.write('OUT of %s\n' % (args,)); stdout.flush()
        if stderr not in (None, subprocess.DEVNULL):
            stderr.write('ERR\n'); stderr.flush()
        self._exit = 3 if 'exit3' in str(args) else 0
    def __enter__(self): return self
    def __exit__(self, *a):
        self.wait()
    def wait(self, timeout=None):
        if self.returncode is not None: return self.returncode
        if self._killed:
            self.returncode=-9; return -9
        if timeout is not None and self._dur > timeout:
            CLOCK.now += timeout
            self._dur -= timeout
            raise subprocess.TimeoutExpired(self.args, timeout)
        CLOCK.now += self._dur
        self.returncode=self._exit
        return self.returncode
    def kill(self):
        self._killed=True
        LOG.append(dict(kill=str(self.args)))
    def poll(self): return self.returncode

subprocess.Popen = SimPopen

case = '''[setup]
% probe a 'b c' @[EXACTLY_ACT]@
run % probe2
def program P = % pp parg1
def program Q = @ P qarg
  -stdin "stdin of Q"
run @ Q last
file f.txt = -stdout-from % outprog x
file g.txt = -contents-of -rel-act f.txt -transformed-by run % transformer t1
timeout = 5
stdin = "the stdin"
env X = y
[act]
$ echo hi exit3
[before-assert]
cd -rel-tmp .
% probe-ba
[assert]
exit-code == 3
contents -rel-act f.txt : run % matcherprog
stdout -from % slowprog slow
 is-empty
[cleanup]
% probe-cleanup
'''
open('a.case','w').write(case)
mp = d.default_main_program()
out=open('out.txt','w+'); err=open('err.txt','w+')
ec = mp.execute(['a.case'], StdOutputFiles(out, err))
out.seek(0); err.seek(0)
print(ec, repr(out.read())); print(err.read()[:3000])
for l in LOG: print(json.dumps(l, default=str))
print('clock', CLOCK.now)
import time
t=time.time()
N=0
for i in range(N):
    LOG.clear()
    out=open('out.txt','w+'); err=open('err.txt','w+')
    ec = mp.execute(['a.case'], StdOutputFiles(out, err))
    out.close(); err.close()
print('per run ms', (time.time()-t)/N*1000)
