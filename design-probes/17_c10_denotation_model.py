import sys, io, os, subprocess, json, shutil, random, re
from exactly_lib.cli_default import default_main_program_setup as d
from exactly_lib.util.file_utils.std import StdOutputFiles
LOG=[]; BEH={}
class SimPopen:
    def __init__(self, args, stdin=None, stdout=None, stderr=None, env=None, shell=False, cwd=None, **kw):
        self.returncode=None
        for h in (stdin, stdout, stderr):
            if h is not None and not isinstance(h,int): h.fileno()
        sin=''
        if stdin is not None and not isinstance(stdin,int): sin=os.pread(stdin.fileno(), 100000, 0).decode()
        name=args.split()[0] if isinstance(args,str) else os.path.basename(args[0])
        LOG.append(dict(args=args, shell=shell, stdin=sin, cwd=os.getcwd()))
        b=BEH.get(name,{}); self.exit=b.get('exit',0)
        if stdout is not None and not isinstance(stdout,int): os.write(stdout.fileno(), b.get('out','').encode())
        if stderr is not None and not isinstance(stderr,int): os.write(stderr.fileno(), b.get('err','').encode())
    def __enter__(self): return self
    def __exit__(self,*a): self.wait()
    def wait(self, timeout=None): self.returncode=self.exit; return self.exit
    def kill(self): pass
subprocess.Popen=SimPopen
HOME=os.getcwd()
for n in ('exe1','exe2'):
    open(n,'w').write('#!/bin/sh\n'); os.chmod(n,0o755)
WORDS=['a','bb','c-d','x.y','k=v','7','-x','--long','A_B']
SYMS={'STR1':('string','s1val'),'STR2':('string','two words'),'LST1':('list',['l1','l 2','l3']),'LST0':('list',[]),'PTH1':('path','-rel-act','pdir/pf')}
SYMDEFS="def string STR1 = s1val\ndef string STR2 = 'two words'\ndef list LST1 = l1 'l 2' l3\ndef list LST0 =\ndef path PTH1 = -rel-act pdir/pf\n"
def symval_str(name, sbx):
    t=SYMS[name]
    if t[0]=='string': return t[1]
    if t[0]=='list': return ' '.join(t[1])
    return sbx+'/act/'+t[2]
def gen_arg(rng):
    """returns (syntax, fn(sbx)->list of argv elements)"""
    k=rng.choice(['word','word','soft','hard','symref','symref','softsym','mixed','empty','existing'])
    if k=='word':
        w=rng.choice(WORDS); return w, lambda sbx,w=w:[w]
    if k=='soft':
        w=' '.join(rng.sample(WORDS, rng.randint(1,3))); return '"%s"'%w, lambda sbx,w=w:[w]
    if k=='hard':
        w=' '.join(rng.sample(WORDS+['@[STR1]@'], rng.randint(1,3))); return "'%s'"%w, lambda sbx,w=w:[w]
    if k=='symref':
        n=rng.choice(sorted(SYMS)); t=SYMS[n]
        if t[0]=='list': return '@[%s]@'%n, lambda sbx,t=t:list(t[1])
        return '@[%s]@'%n, lambda sbx,n=n:[symval_str(n,sbx)]
    if k=='softsym':
        n=rng.choice(sorted(SYMS)); return '"pre @[%s]@ post"'%n, lambda sbx,n=n:['pre %s post'%symval_str(n,sbx)]
    if k=='mixed':
        n=rng.choice(['STR1','STR2']); return 'x@[%s]@y'%n, lambda sbx,n=n:['x%sy'%symval_str(n,sbx)]
    if k=='empty': return "''", lambda sbx:['']
    if k=='existing': return '-existing-file exe1', lambda sbx:[HOME+'/exe1']
def gen_args(rng, maxn=4):
    xs=[gen_arg(rng) for _ in range(rng.randint(0,maxn))]
    return ' '.join(x[0] for x in xs), (lambda sbx,xs=xs:[e for x in xs for e in x[1](sbx)])
def gen_stdin(rng):
    k=rng.choice([None,None,'str','here','symstr'])
    if k is None: return None,None
    if k=='str':
        w=' '.join(rng.sample(WORDS,2)); return '-stdin "%s"'%w, w
    if k=='here':
        w=rng.choice(WORDS); return '-stdin <<EOF\n%s\nEOF'%w, w+'\n'
    return '-stdin @[STR2]@', 'two words'
def gen_program(rng, depth, defs, pid):
    """returns (syntax_lines(list), model dict(driver kind, argv_fn, stdin_parts))"""
    k=rng.choice(['sys','sys','python','exe','exe-rel','shell']+(['sym','sym'] if depth>0 else []))
    a_syn,a_fn=gen_args(rng)
    s_syn,s_val=gen_stdin(rng)
    if k=='sys':
        name='p%d'%pid[0]; pid[0]+=1
        m=dict(shell=False, head=lambda sbx,name=name:[name], args=a_fn, stdin=[s_val] if s_val is not None else [])
        first='%% %s %s'%(name,a_syn)
    elif k=='python':
        m=dict(shell=False, head=lambda sbx:[sys.executable], args=a_fn, stdin=[s_val] if s_val is not None else [])
        first='-python %s'%a_syn
    elif k=='exe':
        m=dict(shell=False, head=lambda sbx:[HOME+'/exe1'], args=a_fn, stdin=[s_val] if s_val is not None else [])
        first='exe1 %s'%a_syn
    elif k=='exe-rel':
        m=dict(shell=False, head=lambda sbx:[HOME+'/exe2'], args=a_fn, stdin=[s_val] if s_val is not None else [])
        first='-rel-home exe2 %s'%a_syn
    elif k=='shell':
        line='sh%d some "quoted text" | more'%pid[0]; pid[0]+=1
        m=dict(shell=True, line=line, args=(lambda sbx:[]), stdin=[s_val] if s_val is not None else [])
        first='$ %s'%line
    else:
        sub_lines, sub=gen_program(rng, depth-1, defs, pid)
        sname='PROG%d'%len(defs)
        defs.append('def program %s = %s'%(sname,'\n  '.join(sub_lines)))
        m=dict(sub); 
        m['args']=(lambda sbx,f1=sub['args'],f2=a_fn:f1(sbx)+f2(sbx))
        m['stdin']=list(sub['stdin'])+([s_val] if s_val is not None else [])
        first='@ %s %s'%(sname,a_syn)
    lines=[first.rstrip()]
    if s_syn: lines.append(s_syn)
    return lines, m
def expected(m, sbx, extra_stdin=None):
    stdin=''.join(m['stdin'])+(extra_stdin or '')
    if m['shell']:
        a=m['args'](sbx)
        return dict(shell=True, args=' '.join([m['line']]+a) if a else m['line'], stdin=stdin)
    return dict(shell=False, args=m['head'](sbx)+m['args'](sbx), stdin=stdin)
mp=d.default_main_program()
def run(seed):
    rng=random.Random(seed); defs=[]; pid=[0]
    where=rng.choice(['setup-run','act','assert-run','cleanup-run'])
    lines,m=gen_program(rng, 2, defs, pid)
    setup_stdin=None
    body='[setup]\n'+SYMDEFS+'dir -rel-act pdir\n'+'\n'.join(defs)+'\n'
    if where=='act' and rng.random()<0.5:
        setup_stdin='SETUP-STDIN'; body+='stdin = "SETUP-STDIN"\n'
    prog='\n  '.join(lines)
    if where=='setup-run': body+='run '+prog+'\n[act]\n% atc\n'
    elif where=='act': body+='[act]\n'+prog+'\n'
    elif where=='assert-run': body+='[act]\n% atc\n[assert]\nrun '+prog+'\n'
    else: body+='[act]\n% atc\n[cleanup]\nrun '+prog+'\n'
    open('t.case','w').write(body); LOG.clear()
    out=open('out.txt','w+'); err=open('err.txt','w+')
    ec=mp.execute(['--keep','t.case'], StdOutputFiles(out,err)); out.seek(0); err.seek(0)
    sbx=out.read().strip(); e=err.read()
    if sbx: shutil.rmtree(sbx)
    if ec!=0: return ('exit',ec,e[:400],body)
    target=[l for l in LOG if not (l['args']==['atc'])]
    if where=='act': target=LOG
    if len(target)!=1: return ('nspawn',len(target),body)
    got={k:target[0][k] for k in ('shell','args','stdin')}
    exp=expected(m, sbx, setup_stdin)
    if got!=exp: return ('mismatch',got,exp,body)
    return None
bad=0
for s in range(2500):
    r=run(s)
    if r:
        bad+=1
        if bad<=5: print(s, r[0]); [print('   ',x) for x in r[1:]]
print('bad',bad)
