import sys, io, os, subprocess, json, shutil
from exactly_lib.cli_default import default_main_program_setup as d
from exactly_lib.util.file_utils.std import StdOutputFiles
LOG=[]
class SimPopen:
    def __init__(self, args, stdin=None, stdout=None, stderr=None, env=None, shell=False, cwd=None, **kw):
        self.returncode=None
        for h in (stdin, stdout, stderr):
            if h is not None and not isinstance(h,int): h.fileno()
        LOG.append(args)
    def __enter__(self): return self
    def __exit__(self,*a): self.wait()
    def wait(self, timeout=None): self.returncode=0; return 0
    def kill(self): pass
subprocess.Popen=SimPopen
base={'setup':['% m-setup','file sf.txt = "x"'],'act':['% atc'],'before-assert':['% m-ba','dir bad'],'assert':['% m-as','exit-code == 0'],'cleanup':['% m-cl','file cf.txt = "y"']}
defects={
 'syntax':{'*':'file'},  # missing arg
 'unknown-instr':{'*':'nonsense-instruction x'},
 'undef-symbol':{'*':'file u.txt = @[UNDEF]@'},
 'defined-later':{'setup':'file u.txt = @[LATER]@','before-assert':'file u.txt = @[LATER]@','assert':'file u.txt = @[LATER]@'},
 'wrong-type':{'*':'run @ STRSYM'},
 'illegal-rel':{'*':'file @[HOMEP]@/w.txt = "w"'},
 'illegal-rel-2deep':{'*':'file @[HOMEP2]@/w.txt = "w"'},
 'missing-home-file':{'*':'copy nofile.txt'},
 'missing-existing-file-arg':{'*':'% p -existing-file nofile.txt'},
 'bad-int':{'assert':'exit-code == abc','*':'timeout = -1'},
 'bad-int-expr':{'*':'timeout = 1//0'},
 'bad-regex':{'assert':"stdout matches '('", '*':"file r.txt = 'a' -transformed-by replace '(' x"},
 'bad-regex-filter':{'*':"file r.txt = 'a' -transformed-by filter contents matches '['"},
}
mp=d.default_main_program()
seen=os.listdir('/tmp')
for dname,spec in defects.items():
  for phase in ('setup','before-assert','assert','cleanup'):
    instr=spec.get(phase, spec.get('*'))
    if instr is None: continue
    for pos in (0,1,2):
        ph={k:list(v) for k,v in base.items()}
        ph[phase].insert(min(pos,len(ph[phase])), instr)
        pre=['def string STRSYM = s','def path HOMEP = -rel-home hp','def path HOMEP2 = @[HOMEP]@/sub']
        post=['def string LATER = l']
        txt='[setup]\n'+'\n'.join(pre+ph['setup'])+'\n'
        for p in ('act','before-assert','assert'): txt+='[%s]\n'%p+'\n'.join(ph[p])+'\n'
        txt+='[cleanup]\n'+'\n'.join(ph['cleanup']+post)+'\n'
        open('t.case','w').write(txt); LOG.clear()
        before=sorted(os.listdir('.'))
        out=open('out.txt','w+'); err=open('err.txt','w+')
        ec=mp.execute(['t.case'], StdOutputFiles(out,err)); out.seek(0); err.seek(0)
        o=out.read().strip(); e=err.read()
        new=[x for x in os.listdir('/tmp') if x not in seen]
        after=sorted(os.listdir('.'))
        flag = 'OK ' if (ec==65 and not LOG and before==after) else 'BAD'
        if flag=='BAD' or pos==0:
            print(flag, '%-26s %-13s pos=%d exit=%s %s spawns=%s %s' % (dname,phase,pos,ec,o,LOG[:3], '' if flag=='OK ' else e[:200].replace('\n','|')))
