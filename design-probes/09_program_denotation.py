import sys, io, os, subprocess, json, shutil, stat
from exactly_lib.cli_default import default_main_program_setup as d
from exactly_lib.util.file_utils.std import StdOutputFiles
LOG=[]
class SimPopen:
    def __init__(self, args, stdin=None, stdout=None, stderr=None, env=None, shell=False, cwd=None, **kw):
        self.returncode=None
        for h in (stdin, stdout, stderr):
            if h is not None and not isinstance(h,int): h.fileno()
        sin=None
        if stdin is not None and not isinstance(stdin,int):
            sin=os.pread(stdin.fileno(), 10000, 0).decode()
        extra=None
        if not isinstance(args,str) and len(args)>1 and os.path.isfile(args[-1]) and 'act-source' in args[-1] or False:
            pass
        LOG.append(dict(args=args, shell=shell, stdin=sin, cwd=cwd))
        if stdout is not None and not isinstance(stdout,int): os.write(stdout.fileno(), b'o\n')
    def __enter__(self): return self
    def __exit__(self,*a): self.wait()
    def wait(self, timeout=None): self.returncode=0; return 0
    def kill(self): pass
subprocess.Popen=SimPopen
open('exe1','w').write('#!/bin/sh\n'); os.chmod('exe1',0o755)
open('src.py','w').write('print(1)\n')
cases={
'shell sym + args': "[setup]\ndef program S = $ echo hi there\nrun @ S arg1 'arg 2' \"arg '3'\"\n",
'list/path/string syms': "[setup]\ndef list L = a 'b c' d\ndef string T = tt\ndef path P = -rel-act pp/q\nrun % prog @[L]@ \"@[L]@\" @[T]@ pre@[T]@post '@[T]@' @[P]@ \"x @[P]@\" -x --long ''\n",
'python driver': "[setup]\nrun -python -c 'print(1)' a\n",
'exe path': "[setup]\nrun exe1 a b\nrun -rel-home exe1 c\n",
'existing-file arg': "[setup]\nfile f.txt = 'x'\nrun % prog -existing-file -rel-act f.txt -existing-dir -rel-act .\n",
'text until eol': "[setup]\nrun % prog a :> rest of the 'line' \"here\"\n",
'continuation': "[setup]\nrun % prog a \\\n   b c\n",
'stdin chain': "[setup]\ndef program P = % pp p1\n  -stdin 'P-in'\ndef program Q = @ P q1\n  -stdin <<EOF\nQ-in\nEOF\nrun @ Q r1\n  -stdin 'R-in'\n",
'act cmdline + setup stdin': "[setup]\nstdin = 'setup-stdin'\ndef program P = % pp p1\n  -stdin 'P-in'\n[act]\n@ P actarg\n",
'act exe file': "[act]\nexe1 x 'y z'\n",
'actor source': "[conf]\nactor = source % interp i1\n[act]\nline one\n  line two\n",
'actor file': "[conf]\nactor = file % interp i1\n[act]\nsrc.py a1 'a 2'\n",
'actor null': "[conf]\nactor = null\n[act]\nanything\n",
'transformed run': "[setup]\nfile o.txt = -stdout-from % pp\n  -transformed-by char-case -to-upper\n",
}
mp=d.default_main_program()
for name,txt in cases.items():
    if '[act]' not in txt: txt+='[act]\n% atc\n'
    open('t.case','w').write(txt); LOG.clear()
    out=open('out.txt','w+'); err=open('err.txt','w+')
    ec=mp.execute(['t.case'], StdOutputFiles(out,err)); out.seek(0); err.seek(0)
    print('==',name, ec, out.read().strip(), err.read()[:300].replace('\n','|'))
    for l in LOG:
        a=l['args']
        if not isinstance(a,str) and a and os.path.isfile(a[-1]) and 'exactly-' in a[-1]:
            l['lastfile']=open(a[-1]).read()
        print('   ', json.dumps(l))
