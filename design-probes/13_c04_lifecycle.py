full=open('/tmp/scratch5/c01proto.py').read()
src=full.split("# fault-free")[0]
exec(src)
defs=full.split("# sweep singles")[1].split("CLASS=")[0]
exec(defs)
import os
def run4(shape,status,plan,keep):
    cwd0=os.getcwd(); env0=dict(os.environ)
    TRACE.clear(); FIRED.clear(); PLAN.clear(); PLAN.update(plan); del roots[:]
    conf=Configuration(tcd, hs, os_services_access.new_for_current_os(), 8, keep, resolver)
    proc=processors.new_processor_that_is_allowed_to_pollute_current_process(conf)
    names={'conf':'c','setup':'s','before-assert':'b','assert':'a','cleanup':'l'}
    txt='[conf]\nstatus = %s\n' % status
    extra={'setup':'dir -rel-act d1\ncd -rel-act d1\nenv LEAK = 1\nfile -rel-tmp tf.txt = "t"\n','before-assert':'cd -rel-tmp .\n','assert':'','cleanup':'','conf':''}
    for ph,n in zip(['conf','setup','before-assert','assert','cleanup'], shape):
        txt+='[%s]\n' % ph + extra[ph] + ''.join('sim-fault %s%d\n' % (names[ph],i) for i in range(n))
    txt+='[act]\n% atcprog\n'
    (W/'t.case').write_text(txt)
    res=proc.apply(test_case_processing.test_case_reference_of_source_file(W/'t.case'))
    bad=[]
    if os.getcwd()!=cwd0: bad.append(('cwd',os.getcwd())); os.chdir(cwd0)
    if dict(os.environ)!=env0: bad.append(('environ',))
    left=[r for r in roots if os.path.exists(r)]
    if keep:
        if roots and not left: bad.append(('kept-but-missing',))
        for r in left:
            if sorted(os.listdir(r))!=['act','internal','result','tmp']: bad.append(('layout',sorted(os.listdir(r))))
            if sorted(os.listdir(r+'/tmp')) not in ([],['tf.txt']): bad.append(('tmp-touched',os.listdir(r+'/tmp')))
    else:
        if left: bad.append(('leak',left))
    if len(roots)>1: bad.append(('resolver-called',len(roots)))
    for r in left: shutil.rmtree(r)
    return bad
n=0; allbad=[]
for status in ('PASS','FAIL','SKIP'):
  for (site,cls) in sites+[(None,None)]:
    for k in (KINDS[cls] if cls else [None]):
      for keep in (False,True):
        plan={site:k} if site else {}
        b=run4((2,2,2,2,2),status,plan,keep); n+=1
        if b: allbad.append((status,site,k,keep,b))
print('runs',n,'bad',len(allbad)); 
for x in allbad[:6]: print(x)
