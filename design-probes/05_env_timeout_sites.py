import sys, io, os, subprocess, json
from exactly_lib.cli_default import default_main_program_setup as d
from exactly_lib.util.file_utils.std import StdOutputFiles
LOG=[]
class SimPopen:
    def __init__(self, args, stdin=None, stdout=None, stderr=None, env=None, shell=False, cwd=None, **kw):
        self.args=args; self.returncode=None
        for h in (stdin, stdout, stderr):
            if h is not None and not isinstance(h,int): h.fileno()
        e = dict(env) if env is not None else dict(os.environ)
        self.rec=dict(args=args, cwd=os.getcwd(), env={k:v for k,v in e.items() if k.startswith('V')}, env_none=env is None)
        LOG.append(self.rec)
        if stdout is not None and not isinstance(stdout,int):
            os.write(stdout.fileno(), ('out-of-%s\n' % (args if isinstance(args,str) else args[0])).encode())
    def __enter__(self): return self
    def __exit__(self,*a): self.wait()
    def wait(self, timeout=None):
        if self.returncode is None:
            self.rec.setdefault('timeouts',[]).append(timeout)
        self.returncode=0; return 0
    def kill(self): self.rec['killed']=True
    def poll(self): return self.returncode
subprocess.Popen=SimPopen
os.environ['VBASE']='base'
case='''[setup]
% s0
timeout = 7
env V1 = one
env -of act V2 = two-${V1}-${VBASE}-${NOPE}
env -of !act V3 = three-${V2}
% s1
file f.txt = -stdout-from % src1
file g.txt = -contents-of -rel-act f.txt -transformed-by run % trans1
env V4 = -stdout-from % valueprog
stdin = -stdout-from % stdinprog
def program P = % symprog
  -stdin -stdout-from % stdin-of-P
[act]
@ P actarg
[before-assert]
env -of act V5 = nope
env V6 = six
timeout = 9
% ba1
[assert]
exit-code == 0
contents -rel-act f.txt : run % matcher1
exists -rel-act f.txt : type file && run % fmatcher1
stdout -from % so1
  ! is-empty
exit-code -from % ec1
  == 0
timeout = none
% as1
[cleanup]
% cl1
'''
open('c.case','w').write(case)
mp=d.default_main_program()
out=open('out.txt','w+'); err=open('err.txt','w+')
ec=mp.execute(['c.case'], StdOutputFiles(out,err)); out.seek(0); err.seek(0)
print(ec, out.read(), err.read()[:1500])
for l in LOG: print(json.dumps({k:(v if k!='cwd' else v[-8:]) for k,v in l.items()}))
