import os, pathlib, tempfile
from exactly_lib.impls.types.string_source import parse as ss_parse
from exactly_lib.section_document.parse_source import ParseSource
from exactly_lib.util.symbol_table import SymbolTable
from exactly_lib.tcfs.tcds import TestCaseDs
from exactly_lib.tcfs.hds import HomeDs
from exactly_lib.tcfs import sds as sds_mod
from exactly_lib.test_case.app_env import ApplicationEnvironment
from exactly_lib.impls.os_services import os_services_access
from exactly_lib.util.process_execution.execution_elements import ProcessExecutionSettings
from exactly_lib.common import tmp_dir_file_spaces

root = pathlib.Path(tempfile.mkdtemp(prefix='c14-'))
home = root/'home'; home.mkdir()
(home/'src.txt').write_text('a\nb\x0cc\n\nlast')
sbx = root/'sbx'; sbx.mkdir()
sds = sds_mod.construct_at(str(sbx))
tcds = TestCaseDs(HomeDs(home, home), sds)
for buf in (1, 5, 1000):
    for syntax in ['-contents-of src.txt', '"x\ny\x0cz"', '-contents-of src.txt -transformed-by char-case -to-upper', '-contents-of src.txt -transformed-by ( identity | strip )']:
        p = ss_parse.default_parser_for(phase_is_after_act=False)
        sdv = p.parse(ParseSource(syntax))
        ddv = sdv.resolve(SymbolTable({}))
        adv = ddv.value_of_any_dependency(tcds)
        space = tmp_dir_file_spaces.std_tmp_dir_file_space(sds.internal_tmp_dir/('x%d'%buf)/str(abs(hash(syntax))))
        env = ApplicationEnvironment(os_services_access.new_for_current_os(), ProcessExecutionSettings.null(), space, buf)
        src = adv.primitive(env)
        c = src.contents()
        with c.as_lines as ls: l1 = list(ls)
        s1 = c.as_str
        src.freeze()
        c = src.contents()
        with c.as_lines as ls: l2 = list(ls)
        f = c.as_file.read_text()
        print(buf, repr(syntax)[:60], l1==l2, ''.join(l1)==s1, f==s1, l1, l2)
import shutil; shutil.rmtree(root)
