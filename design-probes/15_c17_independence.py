import sys, io, os, subprocess, tempfile, builtins, datetime as _dt, types, json, random, shutil, re
from exactly_lib.cli_default import default_main_program_setup as d
from exactly_lib.util.file_utils.std import StdOutputFiles
import exactly_lib.test_suite.processing as sp, exactly_lib.test_suite.reporting as srep
import exactly_lib.test_suite.reporters.simple_progress_reporter as spr, exactly_lib.test_suite.reporters.junit as sj
import exactly_lib.cli_default.program_modes.test_suite as cdts
EV=[]
class Clock: now=1000000000.0
class FakeDT(_dt.datetime):
    @classmethod
    def now(cls, tz=None): return _dt.datetime.fromtimestamp(Clock.now)
    @classmethod
    def today(cls): return cls.now()
fake=types.SimpleNamespace(datetime=FakeDT, timedelta=_dt.timedelta)
for m in (sp,srep,spr,sj,cdts): m.datetime=fake
BEH={}
class SimHang(BaseException): pass
class SimPopen:
    def __init__(self, args, stdin=None, stdout=None, stderr=None, env=None, shell=False, cwd=None, **kw):
        self.returncode=None; self.killed=False; self.args=args
        for h in (stdin, stdout, stderr):
            if h is not None and not isinstance(h,int): h.fileno()
        e = dict(env) if env is not None else dict(os.environ)
        name=args.split()[0] if isinstance(args,str) else args[0]
        b=BEH.get(name,{}); self.exit=b.get('exit',0); self.dur=b.get('dur',0.01)
        self.rec=dict(ev='spawn', name=name, args=args, cwd=os.getcwd(), env={k:v for k,v in sorted(e.items()) if k.startswith('V') or k.startswith('SIMBASE')}, t=None)
        EV.append(self.rec)
    def __enter__(self): return self
    def __exit__(self,*a): self.wait()
    def wait(self, timeout=None):
        if self.returncode is not None: return self.returncode
        if self.killed: self.returncode=-9; return -9
        self.rec['t']=timeout
        if timeout is not None and self.dur>timeout:
            Clock.now+=timeout; raise subprocess.TimeoutExpired(self.args,timeout)
        Clock.now+=self.dur; self.returncode=self.exit; return self.exit
    def kill(self): self.killed=True
subprocess.Popen=SimPopen
W=os.path.join(os.getcwd(),'w')
cnt=[0]
def mkdtemp(suffix=None, prefix=None, dir=None):
    cnt[0]+=1; p=os.path.join(W,'tmp','sbx%04d'%cnt[0]); os.makedirs(p); EV.append(dict(ev='sandbox',path=p)); return p
tempfile.mkdtemp=mkdtemp
class OutTap(io.StringIO):
    def write(self, s):
        EV.append(dict(ev='out', s=s)); return super().write(s)
os.environ['SIMBASE_A']='a'
DISTURB=['env V1 = leak','env -of act V2 = leak2','dir -rel-act dd','cd -rel-act dd','timeout = 3','timeout = none','def string S1 = s1','file -rel-tmp junk.txt = "j"','file junk-act.txt = "j"']
ENDS={'pass':'','fail':'[assert]\nexit-code == 99\n','hard':'[before-assert]\n% failing\n','timeout':'[before-assert]\ntimeout = 2\n% stall\n','cleanupfail':'[cleanup]\n% failing\n','valid':'[assert]\nexit-code == abc\n'}
BEH['failing']={'exit':3}; BEH['stall']={'dur':float('inf')}
def gen_case(rng, i):
    kind=rng.choice(['disturber','observer','observer'])
    txt='[setup]\n%% c%d-setup\n'%i
    if kind=='disturber':
        ops=rng.sample(DISTURB, rng.randint(1,6)); 
        if 'cd -rel-act dd' in ops and 'dir -rel-act dd' not in ops: ops.remove('cd -rel-act dd')
        ops.sort(key=DISTURB.index)
        txt+='\n'.join(ops)+'\n%% c%d-after\n'%i
    else:
        txt+='def string S1 = mine\nexists -rel-tmp junk.txt : type file\n' if False else 'def string S1 = mine\n'
    txt+='[act]\n%% c%d-atc\n'%i
    txt+=ENDS[rng.choice(sorted(ENDS))]
    if '[cleanup]' not in txt: txt+='[cleanup]\n'
    txt+='%% c%d-cleanup\n'%i
    return txt
def write_world(rng):
    shutil.rmtree(W, ignore_errors=True); os.makedirs(W+'/home/sub'); os.makedirs(W+'/tmp')
    n=rng.randint(2,5); cases={}
    for i in range(n):
        cases['c%d.case'%i]=gen_case(rng,i)
    subcases={'sub/s0.case':gen_case(rng,90)}
    suite_phases=rng.sample(['setup','before-assert','assert','cleanup'], rng.randint(0,3))
    st='[suites]\nsub/exactly.suite\n[cases]\n'+'\n'.join(sorted(cases))+'\n'
    for ph in suite_phases: st+='[%s]\n%% suite-%s\n'%(ph,ph)
    open(W+'/home/exactly.suite','w').write(st)
    open(W+'/home/sub/exactly.suite','w').write('[cases]\ns0.case\n[setup]\n% subsuite-setup\n')
    for k,v in {**cases,**subcases}.items(): open(W+'/home/'+k,'w').write(v)
    return sorted(cases), ['sub/s0.case'], st
mp=d.default_main_program()
def norm(rec):
    m=re.match(r'(.*/sbx\d+)(/.*)?$', rec['cwd'])
    cwd='$SBX'+(m.group(2) or '') if m else rec['cwd']
    return (rec['name'], json.dumps(rec['args']), cwd, json.dumps(rec['env']), rec['t'])
def run_cli(argv):
    EV.clear(); Clock.now=1e9
    out=OutTap(); err=io.StringIO()
    cwd0=os.getcwd(); env0=dict(os.environ)
    ec=mp.execute(argv, StdOutputFiles(out,err))
    assert os.getcwd()==cwd0 and dict(os.environ)==env0, 'harness state changed'
    return ec, out.getvalue(), err.getvalue(), list(EV)
def per_case_from_suite(ev):
    res={}; cur=None
    for e in ev:
        if e['ev']=='out':
            m=re.match(r'case  (.*): $', e['s'])
            if m: cur=m.group(1); res[cur]={'spawns':[], 'ident':None}; continue
            if cur and re.match(r'^[A-Z_]+\n?$', e['s'].strip()+'\n') and e['s'].strip().isupper() and res[cur]['ident'] is None:
                res[cur]['ident']=e['s'].strip(); 
        elif e['ev']=='spawn' and cur: res[cur]['spawns'].append(norm(e))
    return res
def check(seed):
    rng=random.Random(seed); cases,subcases,st=write_world(rng)
    os.chdir(W+'/home')
    try:
        ec,o,e,ev=run_cli(['suite','exactly.suite'])
        a=per_case_from_suite(ev)
        # reversed order
        open('exactly.suite','w').write(st.replace('\n'.join(cases), '\n'.join(reversed(cases))))
        ec2,o2,e2,ev2=run_cli(['suite','exactly.suite'])
        b=per_case_from_suite(ev2)
        bad=[]
        for c in cases+subcases:
            if a.get(c)!=b.get(c): bad.append(('order-dependence',c,a.get(c),b.get(c)))
        # standalone
        for c in cases+subcases:
            for argv in ([c], ['--suite', os.path.join(os.path.dirname(c),'exactly.suite') if os.path.dirname(c) else 'exactly.suite', c]):
                ec3,o3,e3,ev3=run_cli(argv)
                rec={'spawns':[norm(x) for x in ev3 if x['ev']=='spawn'],'ident':o3.strip()}
                if rec!=a.get(c): bad.append(('standalone-differs',c,argv,rec,a.get(c)))
        return bad
    finally:
        os.chdir(os.path.dirname(W))
nb=0
for s in range(150):
    bad=check(s)
    if bad:
        nb+=1
        if nb<=3: print(s, json.dumps(bad[0],default=str)[:1500])
print('bad',nb)
