exec(open('/tmp/scratch7/c17proto.py').read().split("def check(seed):")[0])
import xml.etree.ElementTree as ET
def world(files):
    shutil.rmtree(W, ignore_errors=True); os.makedirs(W+'/home/sub'); os.makedirs(W+'/tmp')
    for k,v in files.items():
        os.makedirs(os.path.dirname(W+'/home/'+k), exist_ok=True); open(W+'/home/'+k,'w').write(v)
ok='[setup]\n% mark\n[act]\n% atc\n'
scen={
 'cycle': {'r.suite':'[suites]\nsub/s.suite\n[cases]\na.case\n','sub/s.suite':'[suites]\n../r.suite\n','a.case':ok},
 'twice': {'r.suite':'[suites]\nsub/s.suite\nsub/t.suite\n[cases]\na.case\n','sub/s.suite':'[suites]\nu.suite\n','sub/t.suite':'[suites]\nu.suite\n','sub/u.suite':'[cases]\n','a.case':ok},
 'missing-sub': {'r.suite':'[suites]\nnope.suite\n[cases]\na.case\n','a.case':ok},
 'missing-case': {'r.suite':'[cases]\na.case\nnope.case\n','a.case':ok},
 'syntax-in-sub': {'r.suite':'[suites]\nsub/s.suite\n[cases]\na.case\n','sub/s.suite':'[nonsense\n','a.case':ok},
 'self': {'r.suite':'[suites]\nr.suite\n[cases]\na.case\n','a.case':ok},
 'case-twice-listed': {'r.suite':'[cases]\na.case\na.case\n*.case\n','a.case':ok,'b.case':ok},
 'glob-sorted': {'r.suite':'[cases]\n*.case\n','z.case':ok,'a.case':ok,'m.case':ok},
 'dir-ref': {'r.suite':'[suites]\nsub\n[cases]\na.case\n','sub/exactly.suite':'[cases]\nc.case\n','sub/c.case':ok,'a.case':ok},
}
for name,files in scen.items():
    world(files); os.chdir(W+'/home')
    for rep in ([],['--reporter','junit']):
        ec,o,e,ev=run_cli(['suite']+rep+['r.suite'])
        spawns=[x['name'] for x in ev if x['ev']=='spawn']
        extra=''
        if rep and ec==0:
            root=ET.fromstring(o); tcs=[t.get('name') for t in root.iter('testcase')]; extra='junit cases=%s'%tcs
        print('%-18s %-8s exit=%s spawns=%d out=%r %s' % (name, 'junit' if rep else 'prog', ec, len(spawns), o[:70] if not rep else o[:40], extra))
    os.chdir(os.path.dirname(W))
