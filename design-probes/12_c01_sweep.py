import sys, io, os, subprocess, json, shutil, pathlib, itertools, collections
from exactly_lib.cli_default.program_modes import test_suite
from exactly_lib.cli_default.program_modes.test_case import builtin_symbols, default_instructions_setup, test_case_handling_setup
from exactly_lib.common import instruction_name_and_argument_splitter
from exactly_lib.common.instruction_setup import SingleInstructionSetup
from exactly_lib.processing.instruction_setup import TestCaseParsingSetup, InstructionsSetup
from exactly_lib.processing.parse.act_phase_source_parser import ActPhaseParser
from exactly_lib.section_document.element_parsers.section_element_parsers import InstructionParser
from exactly_lib.test_case.phases.setup.instruction import SetupPhaseInstruction
from exactly_lib.test_case.phases.before_assert import BeforeAssertPhaseInstruction
from exactly_lib.test_case.phases.cleanup import CleanupPhaseInstruction
from exactly_lib.test_case.phases.assert_ import AssertPhaseInstruction
from exactly_lib.test_case.phases.configuration import ConfigurationPhaseInstruction
from exactly_lib.test_case.phases.act.actor import Actor, ActionToCheck, ParseException
from exactly_lib.test_case.result import sh, svh, pfh, eh
from exactly_lib.test_case.result.failure_details import FailureDetails
from exactly_lib.test_case.hard_error import HardErrorException
from exactly_lib.common.report_rendering import text_docs
from exactly_lib.symbol.sdv_structure import SymbolReference
from exactly_lib.type_val_deps.sym_ref.w_str_rend_restrictions import reference_restrictions
from exactly_lib.processing import processors, test_case_processing
from exactly_lib.processing.processors import TestCaseDefinition, Configuration
from exactly_lib.execution.configuration import PredefinedProperties
from exactly_lib.definitions import os_proc_env
from exactly_lib.impls.os_services import os_services_access
from exactly_lib.processing.act_phase import ActPhaseSetup
from exactly_lib.processing.test_case_handling_setup import TestCaseHandlingSetup
from exactly_lib.processing.preprocessor import IdentityPreprocessor
from exactly_lib.util.symbol_table import SymbolTable

class SimPopen:
    def __init__(self, args, stdin=None, stdout=None, stderr=None, env=None, shell=False, cwd=None, **kw):
        self.returncode=None
        for h in (stdin, stdout, stderr):
            if h is not None and not isinstance(h,int): h.fileno()
    def __enter__(self): return self
    def __exit__(self,*a): self.wait()
    def wait(self, timeout=None): self.returncode=0; return 0
    def kill(self): pass
subprocess.Popen=SimPopen

TRACE=[]; PLAN={}; FIRED=[]
msg=lambda: text_docs.single_pre_formatted_line_object('injected')
def fire(ident, step, extra=None):
    TRACE.append((ident, step, extra))
    k=PLAN.get((ident,step))
    if k: FIRED.append((ident,step,k))
    return k
def svh_result(k):
    if k=='svh_validation': return svh.new_svh_validation_error(msg())
    if k=='svh_hard': return svh.new_svh_hard_error(msg())
    if k=='raise_hard': raise HardErrorException(msg())
    if k=='raise_exc': raise RuntimeError('injected')
    return svh.new_svh_success()
def sh_result(k):
    if k=='sh_hard': return sh.new_sh_hard_error(msg())
    if k=='raise_hard': raise HardErrorException(msg())
    if k=='raise_exc': raise RuntimeError('injected')
    return sh.new_sh_success()
def sym_result(k):
    if k=='undefined_symbol': return [SymbolReference('UNDEFINED_SYM', reference_restrictions.is_any_type_w_str_rendering())]
    if k=='raise_exc': raise RuntimeError('injected')
    return []
class Base:
    def __init__(self, ident): self.ident=ident
    def symbol_usages(self): return sym_result(fire(self.ident,'symbols'))
    def validate_pre_sds(self, env): return svh_result(fire(self.ident,'pre_sds'))
    def validate_post_setup(self, env): return svh_result(fire(self.ident,'post_setup'))
class SetupF(Base, SetupPhaseInstruction):
    def main(self, env, settings, os_services, sb): return sh_result(fire(self.ident,'main'))
class BaF(Base, BeforeAssertPhaseInstruction):
    def main(self, env, settings, os_services): return sh_result(fire(self.ident,'main'))
class AsF(Base, AssertPhaseInstruction):
    def main(self, env, settings, os_services):
        k=fire(self.ident,'main')
        if k=='pfh_fail': return pfh.new_pfh_fail(msg())
        if k=='pfh_hard': return pfh.new_pfh_hard_error(msg())
        if k=='raise_hard': raise HardErrorException(msg())
        if k=='raise_exc': raise RuntimeError('injected')
        return pfh.new_pfh_pass()
class ClF(CleanupPhaseInstruction):
    def __init__(self, ident): self.ident=ident
    def symbol_usages(self): return sym_result(fire(self.ident,'symbols'))
    def validate_pre_sds(self, env): return svh_result(fire(self.ident,'pre_sds'))
    def main(self, env, settings, os_services, previous_phase): return sh_result(fire(self.ident,'main',previous_phase.name))
class CoF(ConfigurationPhaseInstruction):
    def __init__(self, ident): self.ident=ident
    def main(self, cb): return svh_result(fire(self.ident,'main'))
class FAtc(ActionToCheck):
    def __init__(self, real): self.real=real
    def symbol_usages(self):
        r=sym_result(fire('act','symbols')); return list(r)+list(self.real.symbol_usages())
    def validate_pre_sds(self, env):
        r=svh_result(fire('act','pre_sds'));  return r if not r.is_success else self.real.validate_pre_sds(env)
    def validate_post_setup(self, env):
        r=svh_result(fire('act','post_setup')); return r if not r.is_success else self.real.validate_post_setup(env)
    def prepare(self, env, os_services):
        r=sh_result(fire('act','prepare')); return r if r.is_success else r
    def _p(self, env, os_services): return self.real.prepare(env, os_services)
    def execute(self, env, os_services, atc_input, output):
        k=fire('act','execute')
        if k=='eh_hard': return eh.new_eh_hard_error(FailureDetails.new_constant_message('injected'))
        if k=='raise_hard': raise HardErrorException(msg())
        if k=='raise_exc': raise RuntimeError('injected')
        self.real.prepare(env, os_services)
        return self.real.execute(env, os_services, atc_input, output)
class FActor(Actor):
    def __init__(self, real): self.real=real
    def parse(self, instructions):
        k=fire('act','parse')
        if k=='parse_exception': raise ParseException.of_str('injected')
        if k=='raise_hard': raise HardErrorException(msg())
        if k=='raise_exc': raise RuntimeError('injected')
        return FAtc(self.real.parse(instructions))
class P(InstructionParser):
    def __init__(self, cls): self.cls=cls
    def parse(self, fs_location_info, source):
        ident = source.remaining_part_of_current_line.strip(); source.consume_current_line(); return self.cls(ident)
mk=lambda cls: SingleInstructionSetup(P(cls), None)
d=default_instructions_setup.INSTRUCTIONS_SETUP
def plus(s, cls):
    x=dict(s); x['sim-fault']=mk(cls); return x
isetup=InstructionsSetup(plus(d.config_instruction_set,CoF), plus(d.setup_instruction_set,SetupF), plus(d.before_assert_instruction_set,BaF), plus(d.assert_instruction_set,AsF), plus(d.cleanup_instruction_set,ClF))
W=pathlib.Path(os.getcwd())
roots=[]
def resolver():
    p=str(W/('sbx-%d'%len(roots))); os.mkdir(p); roots.append(p); return p
real_actor=test_case_handling_setup.setup().actor.value
hs=TestCaseHandlingSetup(ActPhaseSetup('faultable', FActor(real_actor)), IdentityPreprocessor())
tcd=TestCaseDefinition(TestCaseParsingSetup(instruction_name_and_argument_splitter.splitter, isetup, ActPhaseParser()),
     PredefinedProperties(os_proc_env.ENV_VARS_GETTER__DEFAULT, os_proc_env.ENV_VARS__DEFAULT, os_proc_env.TIMEOUT__DEFAULT, SymbolTable({b.name:b.container for b in builtin_symbols.ALL})))
def run(shape, status, plan, keep=False):
    TRACE.clear(); FIRED.clear(); PLAN.clear(); PLAN.update(plan); del roots[:]
    conf=Configuration(tcd, hs, os_services_access.new_for_current_os(), 8, keep, resolver)
    proc=processors.new_processor_that_is_allowed_to_pollute_current_process(conf)
    names={'conf':'c','setup':'s','before-assert':'b','assert':'a','cleanup':'l'}
    txt='[conf]\nstatus = %s\n' % status
    for ph,n in zip(['conf','setup','before-assert','assert','cleanup'], shape):
        txt+='[%s]\n' % ph + ''.join('sim-fault %s%d\n' % (names[ph],i) for i in range(n))
    txt+='[act]\n% atcprog\n'
    (W/'t.case').write_text(txt)
    res=proc.apply(test_case_processing.test_case_reference_of_source_file(W/'t.case'))
    st = res.execution_result.status.name if res.status.name=='EXECUTED' else res.status.name
    step=None
    if res.status.name=='EXECUTED' and res.execution_result.failure_info is not None:
        fi=res.execution_result.failure_info; step=str(fi.phase_step)
    left=[r for r in roots if os.path.exists(r)]
    for r in left: shutil.rmtree(r)
    return st, step, list(TRACE), list(FIRED), len(roots), left

# fault-free
print(run((1,2,2,2,2),'PASS',{}))
# sweep singles
KINDS={'symbols':['undefined_symbol','raise_exc'],'pre_sds':['svh_validation','svh_hard','raise_hard','raise_exc'],'post_setup':['svh_validation','svh_hard','raise_hard','raise_exc'],
 'main_sh':['sh_hard','raise_hard','raise_exc'],'main_as':['pfh_fail','pfh_hard','raise_hard','raise_exc'],'main_conf':['svh_validation','svh_hard','raise_hard','raise_exc'],
 'parse':['parse_exception','raise_hard','raise_exc'],'prepare':['sh_hard','raise_hard','raise_exc'],'execute':['eh_hard','raise_hard','raise_exc']}
sites=[]
for i in range(2):
    sites+= [(('c%d'%i,'main'),'main_conf')]
    for pfx in 'sba':
        sites+=[((pfx+str(i),'symbols'),'symbols'),((pfx+str(i),'pre_sds'),'pre_sds'),((pfx+str(i),'post_setup'),'post_setup')]
    sites+=[(('s%d'%i,'main'),'main_sh'),(('b%d'%i,'main'),'main_sh'),(('a%d'%i,'main'),'main_as'),(('l%d'%i,'symbols'),'symbols'),(('l%d'%i,'pre_sds'),'pre_sds'),(('l%d'%i,'main'),'main_sh')]
sites+=[(('act','parse'),'parse'),(('act','symbols'),'symbols'),(('act','pre_sds'),'pre_sds'),(('act','post_setup'),'post_setup'),(('act','prepare'),'prepare'),(('act','execute'),'execute')]
CLASS={'svh_validation':'VALIDATION_ERROR','undefined_symbol':'VALIDATION_ERROR','svh_hard':'HARD_ERROR','sh_hard':'HARD_ERROR','pfh_hard':'HARD_ERROR','eh_hard':'HARD_ERROR','raise_hard':'HARD_ERROR','raise_exc':'INTERNAL_ERROR','pfh_fail':'FAIL','parse_exception':'SYNTAX_ERROR'}
rows=collections.Counter(); odd=[]
for status in ('PASS','FAIL'):
  for (site,cls) in sites:
    for k in KINDS[cls]:
      for cl in [None,('l0','sh_hard'),('l1','raise_exc')]:
        plan={site:k}
        if cl: plan[(cl[0],'main')]=cl[1]
        st,step,tr,fired,nroots,left=run((2,2,2,2,2),status,plan)
        exp=CLASS[k]
        if status=='FAIL' and exp=='FAIL': exp='XFAIL'
        prim=[f for f in fired if not (f[0].startswith('l') and f[1]=='main')] 
        clf=[f for f in fired if (f[0].startswith('l') and f[1]=='main')]
        cleanup_events=[t for t in tr if t[0].startswith('l') and t[1]=='main']
        ok = st in ([exp] + ([CLASS[clf[0][2]]] if clf else []))
        key=(cls, 'cleanupfault' if clf else 'single', 'ok' if ok else 'BAD')
        rows[key]+=1
        # halt rule: after primary fired, only cleanup mains
        if prim:
            idx=[i for i,t in enumerate(tr) if (t[0],t[1])==(prim[0][0],prim[0][1])][0]
            after=[t for t in tr[idx+1:] if not (t[0].startswith('l') and t[1]=='main')]
            if after: odd.append(('events-after-failure',site,k,after))
        if nroots and not cleanup_events and not (site[0].startswith('l') and site[1]=='main'): odd.append(('no-cleanup',site,k))
        if not nroots and cleanup_events: odd.append(('cleanup-without-sandbox',site,k))
        if left: odd.append(('sandbox-left',site,k))
        if not ok: odd.append(('status',status,site,k,cl,st,step))
        if (st in ('PASS','XPASS')) and fired: odd.append(('masked',site,k,cl,st))
print(dict(rows)); print(len(odd)); 
for o in odd[:20]: print(o)
# previous phase table
for site,k in [(('s1','main'),'sh_hard'),(('a0','post_setup'),'svh_hard'),(('act','prepare'),'sh_hard'),(('act','execute'),'eh_hard'),(('b0','main'),'sh_hard'),(('a1','main'),'pfh_fail'),(None,None)]:
    st,step,tr,fired,nroots,left=run((1,2,2,2,2),'PASS',{site:k} if site else {})
    print(site,k,st,step,[t for t in tr if t[0].startswith('l') and t[1]=='main'])
