import sys, io, os, subprocess, random, shutil, collections
from exactly_lib.cli import main_program
from exactly_lib.cli.test_case_def import TestCaseDefinitionForMainProgram
from exactly_lib.cli_default.program_modes import test_suite
from exactly_lib.cli_default.program_modes.test_case import builtin_symbols, default_instructions_setup, test_case_handling_setup
from exactly_lib.common import instruction_name_and_argument_splitter
from exactly_lib.processing.instruction_setup import TestCaseParsingSetup
from exactly_lib.processing.parse.act_phase_source_parser import ActPhaseParser
from exactly_lib.util.file_utils.std import StdOutputFiles
OUT={}
class SimPopen:
    def __init__(self, args, stdin=None, stdout=None, stderr=None, env=None, shell=False, cwd=None, **kw):
        self.returncode=None
        for h in (stdin, stdout, stderr):
            if h is not None and not isinstance(h,int): h.fileno()
        name=args.split()[0] if isinstance(args,str) else args[0]
        if stdout is not None and not isinstance(stdout,int): os.write(stdout.fileno(), OUT.get(name,'').encode())
    def __enter__(self): return self
    def __exit__(self,*a): self.wait()
    def wait(self, timeout=None): self.returncode=0; return 0
    def kill(self): pass
subprocess.Popen=SimPopen
W=os.getcwd(); n=[0]
def resolver():
    n[0]+=1; p=W+'/sbx%d'%n[0]; os.mkdir(p); return p
def mk(knob):
    return main_program.MainProgram(test_case_handling_setup.setup(), resolver,
      TestCaseDefinitionForMainProgram(TestCaseParsingSetup(instruction_name_and_argument_splitter.splitter, default_instructions_setup.INSTRUCTIONS_SETUP, ActPhaseParser()), builtin_symbols.ALL),
      test_suite.test_suite_definition(), knob)
MPS={k:mk(k) for k in (1,3,8,64,8192)}
def ref_lines(t):
    out=[]; cur=''
    for ch in t:
        cur+=ch
        if ch=='\n': out.append(cur); cur=''
    if cur: out.append(cur)
    return out
def run(seed, alpha):
    rng=random.Random(seed)
    T=''.join(rng.choice(alpha) for _ in range(rng.choice([0,1,2,5,9,20])))
    nl=len(ref_lines(T))
    kind=rng.choice(['num-lines','is-empty','equals-file','equals-prog'])
    if kind=='num-lines':
        k=rng.choice([nl,nl,nl+1,max(0,nl-1)]); M='num-lines == %d'%k; exp=(nl==k)
    elif kind=='is-empty': M='is-empty'; exp=(T=='')
    elif kind=='equals-file':
        other = T if rng.random()<0.6 else T+'x'
        open('exp.txt','wb').write(other.encode()); M='equals -contents-of -rel-home exp.txt'; exp=(other==T)
    else:
        other = T if rng.random()<0.6 else 'y'+T
        OUT['expprog']=other; M='equals -stdout-from % expprog\n '; exp=(other==T)
    open('actual.txt','wb').write(T.encode()); OUT['actprog']=T; OUT['atc']=T
    res={}
    for src in ('file','prog','atc'):
        for wrap in ('plain','identity','andand','upperlower'):
            m={'plain':M,'identity':'-transformed-by identity '+M,'andand':'( %s && %s )'%(M,M),'upperlower':'-transformed-by ( char-case -to-upper | char-case -to-lower | char-case -to-upper | char-case -to-lower ) '+M if T==T.lower() and kind in('num-lines','is-empty') else M}[wrap]
            if src=='file': instr='contents -rel-home actual.txt : '+m
            elif src=='prog': instr='stdout -from % actprog\n  '+m
            else: instr='stdout '+m
            open('t.case','w').write('[act]\n% atc\n[assert]\n'+instr+'\n')
            for knob,mp in MPS.items():
                out=open('out.txt','w+'); err=open('err.txt','w+')
                ec=mp.execute(['t.case'], StdOutputFiles(out,err)); out.seek(0); err.seek(0)
                res[(src,wrap,knob)]=(ec, err.read()[:300] if ec not in (0,32) else '')
    bad=[(k,v) for k,v in res.items() if v[0]!=(0 if exp else 32)]
    return T,kind,M,exp,bad
for label,alpha in (('safe',['a','b',' ','\n','\n','.']),('multibyte',['a','é','中','\n',' ']),('ff',['a','\x0c','\n','\x0b',' '])):
    nb=0; c=collections.Counter()
    for s in range(150):
        T,kind,M,exp,bad=run(s,alpha)
        if bad:
            nb+=1
            for k,v in bad: c[(kind,k[0],k[1],k[2],v[0])]+=1
            if nb<=2: print('  ',repr(T),M,exp,bad[:3])
    print(label,'bad',nb); 
    for k,v in sorted(c.items(), key=lambda kv:-kv[1])[:40]: print('     ',k,v)
