exec(open('c14proto3.py').read().split("def run(seed, odd):")[0])
import collections
# richer SimPopen: 'cat' copies stdin to stdout; 'p1' emits PROC_OUT; 'vary' emits different text per call
CALLS=collections.Counter()
class SimPopen2:
    def __init__(self, args, stdin=None, stdout=None, stderr=None, env=None, shell=False, cwd=None, **kw):
        self.returncode=None
        for h in (stdin, stdout, stderr):
            if h is not None and not isinstance(h,int): h.fileno()
        name=args[0]; CALLS[name]+=1
        if name=='cat':
            off=os.lseek(stdin.fileno(),0,os.SEEK_CUR); data=b''
            while True:
                chunk=os.pread(stdin.fileno(), 65536, off+len(data))
                if not chunk: break
                data+=chunk
        elif name=='vary': data=('v%d\n'%CALLS[name]).encode()
        else: data=PROC_OUT[name].encode()
        if stdout is not None and not isinstance(stdout,int): os.write(stdout.fileno(), data)
    def __enter__(self): return self
    def __exit__(self,*a): self.wait()
    def wait(self, timeout=None): self.returncode=0; return 0
    def kill(self): pass
subprocess.Popen=SimPopen2
TRANS={'identity':lambda t:t, 'char-case -to-upper':lambda t:t.upper(), 'strip -trailing-new-lines':lambda t:t.rstrip('\n'),
 'filter line-num >= 1':lambda t:t, 'filter -line-nums 1:':lambda t:t, 'grep .':None, 'replace zzz y':lambda t:t, 'run % cat':lambda t:t,
 'filter -line-nums 2:':lambda t:''.join(ref_lines(t)[1:]), 'filter line-num == 1':lambda t:''.join(ref_lines(t)[:1])}
del TRANS['grep .']
def run(seed, alpha):
    rng=random.Random(seed)
    root=pathlib.Path(tempfile.mkdtemp(prefix='c14-'))
    try:
        home=root/'home'; home.mkdir(); sbx=root/'sbx'; sbx.mkdir()
        sds=sds_mod.construct_at(str(sbx)); tcds=TestCaseDs(HomeDs(home,home), sds)
        knob=rng.choice([1,2,3,5,8,13,64])
        n=max(0,rng.choice([0,1,knob-1,knob,knob+1,3*knob, rng.randint(0,3*knob+2)]))
        T=''.join(rng.choice(alpha) for _ in range(n))
        kind=rng.choice(['file','prog','lit'])
        if kind=='lit' and ("'" in T or T=='' and False): kind='file'
        if kind=='file': (home/'src.txt').write_bytes(T.encode()); syntax='-contents-of src.txt'
        elif kind=='prog': PROC_OUT['p1']=T; syntax='-stdout-from % p1\n'
        else: syntax="'"+T+"'"
        chain=[rng.choice(sorted(TRANS)) for _ in range(rng.choice([0,1,1,2,3]))]
        exp=T
        for c in chain: exp=TRANS[c](exp)
        if chain:
            parts=[]
            for c in chain: parts.append(c if not c.startswith('run') else c)
            syntax += ' -transformed-by ( ' + ' | '.join(c+('\n' if c.startswith('run') else '') for c in chain) + ' )'
        try:
            sdv=ss_parse.default_parser_for(phase_is_after_act=False).parse(ParseSource(syntax))
        except Exception as e:
            return ('parse-skip', kind, repr(e)[:100], syntax)
        adv=sdv.resolve(SymbolTable({})).value_of_any_dependency(tcds)
        space=tmp_dir_file_spaces.std_tmp_dir_file_space(sds.internal_tmp_dir/'t')
        env=ApplicationEnvironment(os_services_access.new_for_current_os(), ProcessExecutionSettings.null(), space, knob)
        src=adv.primitive(env)
        ops=[rng.choice(['str','lines','lines_part','file','write','freeze','ext']) for _ in range(rng.randint(1,8))]
        bad=[]
        for op in ops:
            c=src.contents()
            try:
                if op=='str': v=c.as_str; ok=(v==exp)
                elif op=='lines':
                    with c.as_lines as ls: v=list(ls)
                    ok=(v==ref_lines(exp))
                elif op=='lines_part':
                    k=rng.randint(0,3)
                    with c.as_lines as ls:
                        v=[]
                        for i,l in enumerate(ls):
                            if i>=k: break
                            v.append(l)
                    ok=(v==ref_lines(exp)[:k])
                elif op=='file': v=c.as_file.open().read(); ok=(v==exp)
                elif op=='write':
                    with tempfile.TemporaryFile('w+') as s_: c.write_to(s_); s_.seek(0); v=s_.read()
                    ok=(v==exp)
                elif op=='freeze': src.freeze(); ok=True
                else: c.may_depend_on_external_resources; ok=True
                if not ok: bad.append((op,v))
            except Exception as e:
                bad.append((op,'EXC '+repr(e)[:120]))
        if bad: return ('BAD', kind, knob, repr(T), chain, ops, bad[:2])
        return ('ok',kind)
    finally:
        shutil.rmtree(root)
import exactly_lib; print(exactly_lib.__file__)
for label,alpha in (('safe',['a','b',' ','\n','\n','.','\t']),('multibyte+seps',['a','é','中','\n','\n','\x0c','\x85',' ','😀'])):
    cnt=collections.Counter(); ex=[]
    for s in range(5000):
        r=run(s, alpha)
        cnt[r[0]+'/'+str(r[1])]+=1
        if r[0] in('BAD','parse-skip') and len(ex)<5: ex.append(r)
    print(label, dict(cnt))
    for e in ex: print('   ',str(e)[:500])
