import sys, io, os, subprocess, json, shutil, random, re, collections
from exactly_lib.cli_default import default_main_program_setup as d
from exactly_lib.util.file_utils.std import StdOutputFiles
LOG=[]
VALUE_OUT={}
class SimPopen:
    def __init__(self, args, stdin=None, stdout=None, stderr=None, env=None, shell=False, cwd=None, **kw):
        self.returncode=None
        for h in (stdin, stdout, stderr):
            if h is not None and not isinstance(h,int): h.fileno()
        e = dict(env) if env is not None else dict(os.environ)
        name=args.split()[0] if isinstance(args,str) else args[0]
        self.rec=dict(name=name, cwd=os.getcwd(), env={k:v for k,v in e.items() if k.startswith('V') or k.startswith('SIMBASE')}, t=None)
        LOG.append(self.rec)
        if name in VALUE_OUT and stdout is not None and not isinstance(stdout,int):
            os.write(stdout.fileno(), VALUE_OUT[name].encode())
    def __enter__(self): return self
    def __exit__(self,*a): self.wait()
    def wait(self, timeout=None):
        if self.returncode is None: self.rec['t']=timeout
        self.returncode=0; return 0
    def kill(self): pass
subprocess.Popen=SimPopen
os.environ['SIMBASE_A']='base-a'; os.environ['SIMBASE_B']='b b'
for k in list(os.environ):
    if k.startswith('V'): del os.environ[k]
NAMES=['V1','V2','V3','SIMBASE_A']
REF=re.compile(r'\$\{([a-zA-Z0-9_]+)\}')
def expand(v, env): return REF.sub(lambda m: env.get(m.group(1),''), v)
class Model:
    def __init__(self):
        base={k:v for k,v in os.environ.items() if k.startswith('SIMBASE')}
        self.act=dict(base); self.non=dict(base); self.timeout=60; self.cwd='act'
    def apply(self, op, phase):
        k=op[0]
        if k=='set':
            _,spec,name,val=op
            if spec in (None,'act') and phase=='setup': self.act[name]=expand(val,self.act)
            if spec in (None,'!act'): self.non[name]=expand(val,self.non)
        elif k=='unset':
            _,spec,name=op
            if spec in (None,'act') and phase=='setup': self.act.pop(name,None)
            if spec in (None,'!act'): self.non.pop(name,None)
        elif k=='timeout': self.timeout=op[1]
        elif k=='cd': self.cwd=op[2]
def render(op):
    k=op[0]
    sp=lambda s: '' if s is None else '-of %s ' % s
    if k=='set':
        return 'env %s%s = "%s"' % (sp(op[1]),op[2],op[3])
    if k=='unset': return 'env %sunset %s' % (sp(op[1]),op[2])
    if k=='timeout': return 'timeout = %s' % ('none' if op[1] is None else op[1])
    if k=='cd': return 'cd %s' % op[1]
CDS=[('-rel-act d1','act/d1'),('-rel-act d1/d2','act/d1/d2'),('-rel-tmp t1','tmp/t1'),('-rel-act .','act'),('-rel-tmp .','tmp')]
def gen(rng):
    phases={p:[] for p in ('setup','before-assert','assert','cleanup')}
    n=rng.randint(1,12)
    ops=[]
    for i in range(n):
        k=rng.choice(['set','set','set','unset','timeout','cd'])
        if k=='set':
            val=''.join(rng.choice(['x','y','-','${V1}','${V2}','${SIMBASE_A}','${NOPE}','${V3}',' ']) for _ in range(rng.randint(0,4)))
            op=('set', rng.choice([None,'act','!act']), rng.choice(NAMES), val)
        elif k=='unset': op=('unset', rng.choice([None,'act','!act']), rng.choice(NAMES))
        elif k=='timeout': op=('timeout', rng.choice([None,0,1,5,77]))
        else:
            c=rng.choice(CDS); op=('cd',c[0],c[1])
        ops.append(op)
    # distribute over phases in order
    cuts=sorted(rng.randint(0,n) for _ in range(3))
    segs=[ops[:cuts[0]],ops[cuts[0]:cuts[1]],ops[cuts[1]:cuts[2]],ops[cuts[2]:]]
    return dict(zip(['setup','before-assert','assert','cleanup'],segs))
mp=d.default_main_program()
def run(seed):
    rng=random.Random(seed); plan=gen(rng)
    m=Model(); expected=[]; pid=[0]
    def probe(phase):
        pid[0]+=1; return 'p%d'%pid[0]
    txt='[setup]\ndir -rel-act d1/d2\ndir -rel-tmp t1\n'
    lines={}
    for phase in ('setup','before-assert','assert','cleanup'):
        body=[]
        if phase!='setup': txt+='[%s]\n'%phase
        n=probe(phase); txt+='%% %s\n'%n; expected.append((n,'non',dict(m.non),m.timeout,m.cwd))
        for op in plan[phase]:
            txt+=render(op)+'\n'; m.apply(op,phase)
            n=probe(phase); txt+='%% %s\n'%n; expected.append((n,'non',dict(m.non),m.timeout,m.cwd))
        if phase=='setup':
            txt+='[act]\n% atc\n'; expected.append(('atc','act',dict(m.act),m.timeout,m.cwd))
    open('t.case','w').write(txt); LOG.clear()
    out=open('out.txt','w+'); err=open('err.txt','w+')
    ec=mp.execute(['--keep','t.case'], StdOutputFiles(out,err)); out.seek(0); err.seek(0)
    sbx=out.read().strip(); e=err.read()
    bad=[]
    if ec!=0: bad.append(('exit',ec,e[:300]))
    got=[(r['name'], r['env'], r['t'], os.path.relpath(r['cwd'],sbx) if sbx else r['cwd']) for r in LOG]
    exp=[(n,env,t,cwd) for (n,_,env,t,cwd) in expected]
    if got!=exp:
        for g,x in zip(got,exp):
            if g!=x: bad.append(('mismatch',g,x)); break
        if len(got)!=len(exp): bad.append(('len',len(got),len(exp)))
    if sbx and os.path.isdir(sbx): shutil.rmtree(sbx)
    return bad, txt
cnt=0
for s in range(1500):
    bad,txt=run(s)
    if bad:
        cnt+=1
        if cnt<=4: print(s,bad); print(txt)
print('bad',cnt)
