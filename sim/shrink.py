"""Greedy delta-debugging over JSON plans.  A candidate is kept iff the same rule id still fails.
Because expected outcomes are derived from the plan by the engine's model, editing the plan keeps
generator and oracle in step; a candidate on which the engine itself errs is simply rejected."""
import copy

PROTECTED_KEYS = {'format', 'property', 'engine', 'run_seed', 'tier', 'entry', 'violation', 'argv', 'fingerprint', 'spec',
                  'ending'}


def _paths(obj, path=()):
    """Yield (path, container_kind) for every list / dict reachable (excluding protected keys)."""
    if isinstance(obj, dict):
        yield path, 'dict'
        for k in sorted(obj):
            if k in PROTECTED_KEYS:
                continue
            yield from _paths(obj[k], path + (k,))
    elif isinstance(obj, list):
        yield path, 'list'
        for i, v in enumerate(obj):
            yield from _paths(v, path + (i,))


def _get(obj, path):
    for p in path:
        obj = obj[p]
    return obj


def candidates(plan, deletable_dict_keys=('procs', 'files'), text_keys=('stdout', 'stderr', 'T', 'value')):
    # ('text' = the syntax of an instruction: never cut - half an instruction is another test case, not a smaller one)
    """Yield simpler variants of plan, most aggressive first."""
    paths = list(_paths(plan))
    # 1. delete list elements (longest lists first, from the end)
    for path, kind in sorted(paths, key=lambda pk: -len(_get(plan, pk[0])) if pk[1] == 'list' else 0):
        if kind != 'list':
            continue
        lst = _get(plan, path)
        n = len(lst)
        if n >= 4:
            for half in ((0, n // 2), (n // 2, n)):
                c = copy.deepcopy(plan)
                del _get(c, path)[half[0]:half[1]]
                yield c
        for i in range(n - 1, -1, -1):
            c = copy.deepcopy(plan)
            del _get(c, path)[i]
            yield c
    # 2. delete entries of table-like dicts
    for path, kind in paths:
        if kind == 'dict' and path and path[-1] in deletable_dict_keys:
            d = _get(plan, path)
            for k in sorted(d):
                c = copy.deepcopy(plan)
                del _get(c, path)[k]
                yield c
    # 3. simplify scalars
    for path, kind in paths:
        if kind != 'dict':
            continue
        d = _get(plan, path)
        for k in sorted(d):
            v = d[k]
            if k in PROTECTED_KEYS:
                continue
            if isinstance(v, str) and k in text_keys and len(v) > 1:
                for nv in (v[:len(v) // 2], v[len(v) // 2:], v[:-1], v[1:]):
                    if nv != v:
                        c = copy.deepcopy(plan)
                        _get(c, path)[k] = nv
                        yield c
            elif k == 'mem_buff_size' and v != 8192:
                c = copy.deepcopy(plan)
                _get(c, path)[k] = 8192
                yield c
            elif k in ('exit',) and isinstance(v, int) and v not in (0, 1):
                c = copy.deepcopy(plan)
                _get(c, path)[k] = 1
                yield c
            elif v is not None and k in ('stdin', 'setup_stdin') and not isinstance(v, list):
                c = copy.deepcopy(plan)
                _get(c, path)[k] = None
                yield c
            elif isinstance(v, dict) and k == 'tree' and v.get('sub'):
                c = copy.deepcopy(plan)
                _get(c, path)[k] = v['sub']  # use the referenced program directly
                yield c
            elif isinstance(v, bool) and v and k in ('keep', 'act_mode', 'varying', 'ignores_sigterm', 'cd', 'transform',
                                                      'second_use'):
                c = copy.deepcopy(plan)
                _get(c, path)[k] = False
                yield c


def shrink(plan, fails_same, budget=300, normalize=None, **kw):
    """fails_same(plan) -> bool.  Returns (minimised plan, executions used)."""
    used = 0
    best = plan
    progress = True
    while progress and used < budget:
        progress = False
        for c in candidates(best, **kw):
            if used >= budget:
                break
            if normalize is not None:
                try:
                    c = normalize(c)
                except Exception:
                    continue
                if c is None:
                    continue
            if c == best:
                continue
            used += 1
            try:
                ok = fails_same(c)
            except Exception:
                ok = False
            if ok:
                best = c
                progress = True
                break
    return best, used
