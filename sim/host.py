"""Builds MainProgram / processors.Configuration the way default_main_program() does, with the seams
passed through the constructor parameters; run_cli() and run_structured() execute one plan step
under an installed simulation and capture everything the oracles need."""
import io
import os
import sys

from . import kernel, patches
from .kernel import SimHang, SeamEscape, HarnessError, HarnessAbort

_CACHE = {}


def repo_src() -> str:
    return os.path.join(os.environ.get('VERIF_REPO_DIR') or _repo_dir(), 'src')


_REPO_DIR = None


def _repo_dir():
    return _REPO_DIR or '/repo'


def bootstrap(repo_dir: str):
    """Put <repo>/src first on sys.path and check exactly_lib really comes from there."""
    global _REPO_DIR
    _REPO_DIR = repo_dir
    src = os.path.join(repo_dir, 'src')
    if src not in sys.path:
        sys.path.insert(0, src)
    import exactly_lib
    f = os.path.realpath(exactly_lib.__file__)
    if not f.startswith(os.path.realpath(src) + os.sep):
        raise HarnessError('exactly_lib imported from %s, not from %s' % (f, src))


def _parts():
    if 'parts' not in _CACHE:
        from . import faultpoints
        from exactly_lib.cli_default.program_modes.test_case import test_case_handling_setup, builtin_symbols
        from exactly_lib.processing.act_phase import ActPhaseSetup
        from exactly_lib.processing.preprocessor import IdentityPreprocessor
        from exactly_lib.processing.test_case_handling_setup import TestCaseHandlingSetup
        isetup, FaultableActor = faultpoints.build()
        default = test_case_handling_setup.setup()
        real_nav = default.actor
        hs = TestCaseHandlingSetup(ActPhaseSetup(real_nav.name, FaultableActor(real_nav.value)),
                                   IdentityPreprocessor())
        _CACHE['parts'] = (isetup, hs, builtin_symbols.ALL)
    return _CACHE['parts']


def _resolver():
    return kernel.cur().world.new_sandbox('exactly-')


def main_program(mem_buff_size: int):
    key = ('mp', mem_buff_size)
    if key not in _CACHE:
        from exactly_lib.cli import main_program as mpm
        from exactly_lib.cli.test_case_def import TestCaseDefinitionForMainProgram
        from exactly_lib.cli_default.program_modes import test_suite
        from exactly_lib.common import instruction_name_and_argument_splitter
        from exactly_lib.processing.instruction_setup import TestCaseParsingSetup
        from exactly_lib.processing.parse.act_phase_source_parser import ActPhaseParser
        isetup, hs, builtins_ = _parts()
        _CACHE[key] = mpm.MainProgram(
            hs, _resolver,
            TestCaseDefinitionForMainProgram(
                TestCaseParsingSetup(instruction_name_and_argument_splitter.splitter, isetup, ActPhaseParser()),
                builtins_),
            test_suite.test_suite_definition(),
            mem_buff_size)
    return _CACHE[key]


def _tcd():
    if 'tcd' not in _CACHE:
        from exactly_lib.common import instruction_name_and_argument_splitter
        from exactly_lib.definitions import os_proc_env
        from exactly_lib.execution.configuration import PredefinedProperties
        from exactly_lib.processing.instruction_setup import TestCaseParsingSetup
        from exactly_lib.processing.parse.act_phase_source_parser import ActPhaseParser
        from exactly_lib.processing.processors import TestCaseDefinition
        from exactly_lib.util.symbol_table import SymbolTable
        isetup, hs, builtins_ = _parts()
        _CACHE['tcd'] = TestCaseDefinition(
            TestCaseParsingSetup(instruction_name_and_argument_splitter.splitter, isetup, ActPhaseParser()),
            PredefinedProperties(os_proc_env.ENV_VARS_GETTER__DEFAULT, os_proc_env.ENV_VARS__DEFAULT,
                                 os_proc_env.TIMEOUT__DEFAULT,
                                 SymbolTable({b.name: b.container for b in builtins_})))
    return _CACHE['tcd']


class _Tap(io.StringIO):
    is_sim_std_stream = True

    def __init__(self, which):
        super().__init__()
        self._which = which

    def write(self, s):
        kernel.cur().ev('out', which=self._which, s=kernel.cur().world.norm(s), spawns=len(kernel.cur().spawns),
                        trace=len(kernel.cur().trace))
        return super().write(s)


def _state():
    try:
        cwd = os.getcwd()
    except FileNotFoundError:
        cwd = '<deleted>'
    return cwd, dict(os.environ)


def _restore(world, state0):
    os.chdir(state0[0])
    if dict(os.environ) != state0[1]:
        os.environ.clear()
        os.environ.update(state0[1])


def run_cli(sim: kernel.Sim, argv, knob=None, tap=False, cwd=None, label='cli'):
    """One invocation of MainProgram.execute under the installed seams.
    Returns a dict; never raises for SimHang/SeamEscape (they are recorded)."""
    from exactly_lib.util.file_utils.std import StdOutputFiles
    world = sim.world
    knob = knob if knob is not None else sim.plan.get('knobs', {}).get('mem_buff_size', 8192)
    mp = main_program(knob)
    os.chdir(cwd or world.home)
    state0 = _state()
    res = {'argv': list(argv), 'exit': None, 'hang': None, 'escape': None, 'exception': None}
    n_ev0 = len(sim.events)
    sim.ev('cli_begin', argv=world.norm(list(argv)), label=label)
    if tap:
        out, err = _Tap('out'), _Tap('err')
    else:
        out = open(os.path.join(world.io, 'out'), 'w+')
        err = open(os.path.join(world.io, 'err'), 'w+')
    # the standard streams of the simulated Exactly process: what StdOutputFiles gets, what sys.stdout / sys.stderr are
    # (code that falls back on them - or hands them to a child - reaches the same streams, as in a real process), and what
    # a child that is given no handle inherits
    sim.std_streams = {'stdout': out, 'stderr': err}
    real_std = (sys.stdout, sys.stderr)
    sys.stdout, sys.stderr = out, err
    try:
        try:
            res['exit'] = mp.execute(list(argv), StdOutputFiles(out, err))
        except SimHang as ex:
            res['hang'] = str(ex)
        except SeamEscape as ex:
            res['escape'] = str(ex)
        except HarnessAbort as ex:
            raise HarnessError('bug in harness code running inside Exactly:\n%s' % ex)
        except Exception as ex:  # escaping exception = what the OS would show as a traceback + exit 1
            res['exception'] = '%s: %s' % (type(ex).__name__, ex)
        if tap:
            res['stdout'], res['stderr'] = out.getvalue(), err.getvalue()
        else:
            for f, k in ((out, 'stdout'), (err, 'stderr')):
                f.flush()
                with open(f.name, 'rb') as rf:
                    res[k] = rf.read().decode('utf-8', errors='surrogateescape')
    finally:
        sys.stdout, sys.stderr = real_std
        sim.std_streams = {}
        if not tap:
            out.close()
            err.close()
    state1 = _state()
    res['cwd_before'], res['cwd_after'] = state0[0], state1[0]
    res['cwd_ok'] = state1[0] == state0[0]
    res['environ_ok'] = state1[1] == state0[1]
    if not res['environ_ok']:
        res['environ_delta'] = {k: (state0[1].get(k), state1[1].get(k))
                                for k in sorted(set(state0[1]) | set(state1[1]))
                                if state0[1].get(k) != state1[1].get(k)}
    _restore(world, state0)
    res['ev_range'] = (n_ev0, len(sim.events))
    # only the first line of stderr enters the event log: the prose of Exactly's error messages is not judged by any
    # property, and it lists sets (e.g. the legal relativity options) in an order that depends on PYTHONHASHSEED
    sim.ev('cli_end', exit=res['exit'], stdout=world.norm(res['stdout']),
           stderr_head=world.norm(res['stderr']).split('\n', 1)[0][:200],
           hang=res['hang'], escape=res['escape'], exception=res['exception'],
           cwd_ok=res['cwd_ok'], environ_ok=res['environ_ok'])
    return res


def run_structured(sim: kernel.Sim, case_rel: str, keep=False, act_mode=False, knob=None):
    """processors.new_processor_that_is_allowed_to_pollute_current_process(Configuration(...)).apply(file):
    the same pipeline from file text on, returning processing.Result."""
    from exactly_lib.impls.os_services import os_services_access
    from exactly_lib.processing import processors, test_case_processing
    from exactly_lib.util.file_utils.std import StdOutputFiles
    import pathlib
    world = sim.world
    knob = knob if knob is not None else sim.plan.get('knobs', {}).get('mem_buff_size', 8192)
    _, hs, _ = _parts()
    os.chdir(world.home)
    state0 = _state()
    res = {'hang': None, 'escape': None, 'exception': None, 'status': None, 'step': None, 'line': None,
           'has_atc_outcome': None, 'atc_exit': None}
    out = err = None
    if act_mode:
        out = open(os.path.join(world.io, 'act-out'), 'w+')
        err = open(os.path.join(world.io, 'act-err'), 'w+')
    sim.ev('structured_begin', case=case_rel, keep=keep, act_mode=act_mode)
    try:
        conf = processors.Configuration(_tcd(), hs, os_services_access.new_for_current_os(), knob, keep, _resolver,
                                        StdOutputFiles(out, err) if act_mode else None)
        proc = processors.new_processor_that_is_allowed_to_pollute_current_process(conf)
        try:
            r = proc.apply(test_case_processing.test_case_reference_of_source_file(
                pathlib.Path(os.path.join(world.root, case_rel))))
            if r.status.name == 'EXECUTED':
                fr = r.execution_result
                res['status'] = fr.status.name
                res['has_atc_outcome'] = fr.action_to_check_outcome is not None
                if fr.action_to_check_outcome is not None:
                    res['atc_exit'] = fr.action_to_check_outcome.exit_code
                res['has_sds'] = fr.has_sds
                if fr.failure_info is not None:
                    fi = fr.failure_info
                    res['step'] = str(fi.phase_step)
                    res['step_phase'] = fi.phase_step.phase.identifier if fi.phase_step.phase is not None else None
                    res['step_name'] = fi.phase_step.step
                    loc = getattr(fi, 'source_location', None)
                    if loc is not None and loc.location is not None and loc.location.source is not None:
                        res['line'] = loc.location.source.first_line.line_number
                        fp = loc.location.file_path_rel_referrer
                        res['file'] = os.path.basename(str(fp)) if fp is not None else None
            else:
                res['status'] = r.status.name if r.status.name != 'ACCESS_ERROR' else r.access_error_type.name
        except SimHang as ex:
            res['hang'] = str(ex)
        except SeamEscape as ex:
            res['escape'] = str(ex)
        except HarnessAbort as ex:
            raise HarnessError('bug in harness code running inside Exactly:\n%s' % ex)
        except Exception as ex:
            res['exception'] = '%s: %s' % (type(ex).__name__, ex)
    finally:
        if act_mode:
            out.close()
            err.close()
    state1 = _state()
    res['cwd_ok'] = state1[0] == state0[0]
    res['environ_ok'] = state1[1] == state0[1]
    _restore(world, state0)
    sim.ev('structured_end', status=res['status'], step=res['step'], line=res['line'], hang=res['hang'],
           exception=res['exception'], cwd_ok=res['cwd_ok'], environ_ok=res['environ_ok'])
    return res
