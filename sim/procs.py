"""SimPopen: the process seam.  Replaces subprocess.Popen for the duration of a run.

The real `subprocess.call` / `run` / `check_output` control flow (wait with timeout,
kill on any exception, reap in __exit__) runs unmodified on top of this class.
Fidelity rules are listed in DESIGN.md §2.3.
"""
import errno
import os
import subprocess
import sys

from . import kernel
from .kernel import SimHang

_REAL_POPEN = subprocess.Popen
PIPE, STDOUT, DEVNULL = subprocess.PIPE, subprocess.STDOUT, subprocess.DEVNULL

DEFAULT_BEHAVIOUR = {'exit': 0, 'stdout': '', 'stderr': '', 'duration': 0.01}

INF = float('inf')


def tag_of(args, shell: bool) -> str:
    if isinstance(args, (str, bytes)):
        s = args.decode() if isinstance(args, bytes) else args
        if shell:
            parts = s.split()
            return parts[0] if parts else ''
        return os.path.basename(s)
    args = list(args)
    if not args:
        return ''
    return os.path.basename(os.fspath(args[0]))


EXACTLYS_OWN_STDIN = 'text waiting on the stdin of the Exactly process\n'


def _fd_of(handle):
    """What the real _get_handles does: ints are fds, everything else must have fileno().
    (The in-memory stand-ins for the standard streams of the simulated Exactly process - host._Tap - have no descriptor:
    they are written to as text.)"""
    if handle is None:
        return None
    if isinstance(handle, int):
        return handle
    if getattr(handle, 'is_sim_std_stream', False):
        return handle
    return handle.fileno()


def _read_stdin(fd, reads_it=True) -> str:
    if fd is None or fd < 0:
        return ''
    try:
        off = os.lseek(fd, 0, os.SEEK_CUR)
    except OSError:
        # a pipe (or the like): a child that comes to an end reads it until end-of-file; one that never finishes never
        # reads it - whoever feeds the pipe must cope with that
        if not reads_it:
            return '<never read>'
        data = b''
        while True:
            chunk = os.read(fd, 65536)
            if not chunk:
                break
            data += chunk
        return data.decode('utf-8', errors='surrogateescape')
    data = b''
    while True:
        chunk = os.pread(fd, 65536, off + len(data))
        if not chunk:
            break
        data += chunk
    return data.decode('utf-8', errors='surrogateescape')


def _dur(v):
    if v in ('inf', None):
        return INF
    return float(v)


class SimPopen:
    _pid_counter = 1000

    def __init__(self, args, bufsize=-1, executable=None, stdin=None, stdout=None, stderr=None,
                 preexec_fn=None, close_fds=True, shell=False, cwd=None, env=None,
                 universal_newlines=None, startupinfo=None, creationflags=0, restore_signals=True,
                 start_new_session=False, pass_fds=(), *, user=None, group=None, extra_groups=None,
                 encoding=None, errors=None, text=None, umask=-1, pipesize=-1, process_group=None):
        # like the real class: fileno() of every handle (side effect: SpooledTextFile rolls over).  The handles are
        # Exactly's own objects: what they raise (a disk fault while rolling over) is Exactly's business, as under the
        # real Popen, whose _get_handles calls fileno() inside the constructor
        fd_in = None if stdin in (None, PIPE, DEVNULL) else _fd_of(stdin)
        fd_out = None if stdout in (None, PIPE, DEVNULL) else _fd_of(stdout)
        fd_err = None if stderr in (None, PIPE, DEVNULL, STDOUT) else _fd_of(stderr)
        planned_error = self._init(args, stdin, stdout, stderr, shell, cwd, env, fd_in, fd_out, fd_err)
        if planned_error is not None:
            raise planned_error

    @kernel.guarded
    def _init(self, args, stdin, stdout, stderr, shell, cwd, env, fd_in, fd_out, fd_err):
        sim = kernel.cur()
        self.args = args
        self.returncode = None
        self.stdin = self.stdout = self.stderr = None
        self._sim = sim
        self._killed = False
        self._terminated = False
        self._waits = []
        if stderr == STDOUT:
            fd_err = fd_out
        tag = tag_of(args, shell)
        self.tag = tag
        sim.invocations[tag] += 1
        n = sim.invocations[tag]
        known = tag in sim.procs
        b = dict(DEFAULT_BEHAVIOUR)
        b.update(sim.procs.get(tag, {}))
        # per-argument overrides: the same program behaves differently for a particular argument (e.g. a
        # preprocessor that fails for one case file)
        for ov in b.get('when_arg', ()):
            flat = args if isinstance(args, str) else ' '.join(os.fspath(a) for a in args)
            if ov['contains'] in flat:
                b = dict(b)
                b.update({k: v for k, v in ov.items() if k != 'contains'})
        if not known:
            sim.counts['unknown_tag'] += 1
        self._b = b
        # like the OS: a relative cwd is relative to the current directory of the (Exactly) process at that moment
        eff_cwd = os.path.normpath(os.path.join(_getcwd(), os.fspath(cwd))) if cwd is not None else _getcwd()
        eff_env = dict(env) if env is not None else dict(os.environ)
        # a child that is given no stdin inherits that of the Exactly process: the text waiting there is part of the
        # simulated world (plan['exactly_stdin']), never the real stdin of the harness
        stdin_txt = _read_stdin(fd_in, _dur(b.get('duration', 0.01)) != INF) if stdin is not None else \
            sim.plan.get('exactly_stdin', EXACTLYS_OWN_STDIN)
        SimPopen._pid_counter += 1
        self.pid = SimPopen._pid_counter
        rec = {
            'tag': tag, 'n': n,
            'args': args if isinstance(args, str) else [os.fspath(a) for a in args],
            'shell': bool(shell), 'cwd': eff_cwd, 'env': eff_env, 'env_is_none': env is None,
            'stdin': stdin_txt, 'stdin_kind': _kind(stdin), 'stdout_kind': _kind(stdout),
            'stderr_kind': _kind(stderr),
            't_spawn': sim.clock.now, 'waits': self._waits, 'killed': False, 'terminated': False,
            'reaped': False, 'obs': {}, 'files': {}, 'known': known, 'exit': None,
        }
        self.rec = rec
        # files a child is given by name live in the sandbox: read them now
        if not isinstance(args, str):
            for a in list(args)[1:]:
                a = os.fspath(a)
                if os.path.isabs(a) and os.path.isfile(a) and sim.world.is_inside(a):
                    try:
                        with open(a, 'rb') as f:
                            rec['files'][a] = f.read(1 << 16).decode('utf-8', errors='surrogateescape')
                    except OSError:
                        pass
        if b.get('spawn_error'):
            code = getattr(errno, b['spawn_error'])
            rec['spawn_error'] = b['spawn_error']
            rec['seq'] = sim.ev('spawn', tag=tag, n=n, args=sim.world.norm(rec['args']), shell=bool(shell),
                                cwd=sim.world.norm(eff_cwd), envd=sim.world.env_diff(eff_env),
                                stdin=stdin_txt, error=b['spawn_error'], t=sim.clock.now)
            sim.spawns.append(rec)
            return OSError(code, os.strerror(code), tag)
        rec['seq'] = sim.ev('spawn', tag=tag, n=n, args=sim.world.norm(rec['args']), shell=bool(shell),
                            cwd=sim.world.norm(eff_cwd), envd=sim.world.env_diff(eff_env),
                            stdin=stdin_txt, t=sim.clock.now)
        sim.spawns.append(rec)
        sim.children.append(self)
        self._remaining = _dur(b.get('duration', 0.01))
        out = b.get('stdout', '')
        err = b.get('stderr', '')
        if b.get('cat'):
            out = stdin_txt + out
        if b.get('cat_last_arg_file') and not isinstance(args, str):
            # e.g. a preprocessor that works like cat / sed: prints the files named by ALL its file operands (the
            # arguments that are no options), relative to its cwd, in order
            texts = []
            for a in list(args)[1:]:
                a = os.fspath(a)
                if a.startswith('-'):
                    continue
                try:
                    with open(os.path.join(eff_cwd, a), 'rb') as f:
                        texts.append(f.read().decode('utf-8', errors='surrogateescape'))
                except OSError:
                    pass
            out = ''.join(texts) + out
        if b.get('varying'):
            out = out.replace('{n}', str(n))
            err = err.replace('{n}', str(n))
        out_b = out.encode('utf-8', errors='surrogateescape')
        err_b = err.encode('utf-8', errors='surrogateescape')
        early = b.get('early')
        if early is None:
            early_out, late_out = out_b, b''
        else:
            early_out, late_out = out_b[:early], out_b[early:]
        self._late = (fd_out, late_out)
        self._pipes = {}
        self._emit('stdout', stdout, fd_out, early_out)
        self._emit('stderr', stderr, fd_err, err_b)
        # in-situ probes and scripted file-system actions of the child
        from . import observers
        names = list(b.get('observe', ()))
        if sim.plan.get('observe_sbx') and 'sbx' not in names:
            names.append('sbx')
        for name in names:
            rec['obs'][name] = observers.observe(name, sim, rec)
        for act in b.get('actions', ()):
            observers.perform(act, sim, rec)
        if rec['obs']:
            sim.ev('obs', tag=tag, n=n, obs=sim.world.norm(rec['obs']))
        return None

    # -- output --
    def _emit(self, which, handle, fd, data: bytes):
        if handle == DEVNULL or not data:
            return
        if handle == PIPE:
            self._pipes[which] = self._pipes.get(which, b'') + data
            return
        if fd is None:
            # no handle given: the child inherits the standard stream of the Exactly process - what it writes appears
            # there, in the middle of whatever Exactly itself reports on that stream
            self._sim.counts['inherited_' + which] += 1
            self._sim.ev('inherit_output', which=which, data=data.decode('utf-8', 'replace'))
            fd = self._sim.std_streams.get(which)
            if fd is None:
                return
            fd = _fd_of(fd)
        if isinstance(fd, int) and fd in (1, 2):
            # descriptors 1 and 2 of the *simulated* process are its standard streams (a handle such as the sys.stdout that a
            # default argument captured when the module was imported stands for them) - never those of the harness
            self._sim.counts['inherited_' + which] += 1
            std = self._sim.std_streams.get('stdout' if fd == 1 else 'stderr')
            if std is None:
                return
            fd = _fd_of(std)
        if getattr(fd, 'is_sim_std_stream', False):
            fd.write(data.decode('utf-8', 'replace'))
            return
        os.write(fd, data)

    # -- Popen protocol --
    def __enter__(self):
        return self

    def __exit__(self, exc_type, value, traceback):
        self.wait()

    def poll(self):
        return self.returncode

    def _finish(self, code):
        self.returncode = code
        self.rec['exit'] = code
        self.rec['reaped'] = True
        self.rec['t_end'] = self._sim.clock.now
        self._sim.ev('exit', tag=self.tag, n=self.rec['n'], code=code, t=self._sim.clock.now)
        return code

    @kernel.guarded(allow=(subprocess.TimeoutExpired,))
    def wait(self, timeout=None):
        sim = self._sim
        if self.returncode is not None:
            return self.returncode
        if self._killed:
            return self._finish(-9)
        if self._terminated:
            return self._finish(-15)
        self._waits.append(timeout)
        if timeout is None:
            if self._remaining == INF:
                sim.ev('hang', tag=self.tag, n=self.rec['n'])
                self.rec['hang'] = True
                raise SimHang(self.tag)
            sim.clock.advance(self._remaining)
        elif self._remaining > timeout:
            sim.clock.advance(max(0.0, timeout))
            self._remaining -= max(0.0, timeout)
            sim.ev('timeout', tag=self.tag, n=self.rec['n'], timeout=timeout, t=sim.clock.now)
            self.rec['timed_out'] = True
            raise subprocess.TimeoutExpired(self.args, timeout)
        else:
            sim.clock.advance(self._remaining)
        self._remaining = 0.0
        fd, late = self._late
        if late:
            if fd is not None:
                os.write(fd, late)
            elif 'stdout' in self._pipes:
                self._pipes['stdout'] += late
        return self._finish(self._exit_code())

    def is_running_straggler(self) -> bool:
        """A child that keeps working in its current directory for as long as nobody stops it."""
        if self._b.get('leaves_a_writing_descendant') and not self.rec.get('spawn_error'):
            return True  # a background process of its own that Exactly knows nothing about (and can not stop)
        return bool(self._b.get('straggler')) and self.returncode is None and not self._killed and not self._terminated

    def _exit_code(self) -> int:
        seq = self._b.get('exit_by_invocation')  # a program that ends differently each time it is run
        if seq:
            return int(seq[min(self.rec['n'], len(seq)) - 1])
        return int(self._b.get('exit', 0))

    @kernel.guarded(allow=(subprocess.TimeoutExpired,))
    def communicate(self, input=None, timeout=None):
        self.wait(timeout)
        return self._pipes.get('stdout'), self._pipes.get('stderr')

    @kernel.guarded
    def kill(self):
        if self.returncode is None:
            self._killed = True
            self.rec['killed'] = True
            self.rec['t_kill'] = self._sim.clock.now
            self._sim.ev('kill', tag=self.tag, n=self.rec['n'], t=self._sim.clock.now)

    @kernel.guarded
    def terminate(self):
        if self.returncode is None:
            self.rec['terminated'] = True
            self.rec.setdefault('t_term', self._sim.clock.now)
            self._sim.ev('terminate', tag=self.tag, n=self.rec['n'], t=self._sim.clock.now)
            if not self._b.get('ignores_sigterm'):
                self._terminated = True

    def send_signal(self, sig):
        import signal
        if sig == signal.SIGKILL:
            self.kill()
        elif sig == signal.SIGTERM:
            self.terminate()


def _kind(h):
    if h is None:
        return 'inherit'
    if h == DEVNULL:
        return 'devnull'
    if h == PIPE:
        return 'pipe'
    if h == STDOUT:
        return 'stdout'
    if isinstance(h, int):
        return 'fd'
    return 'file'


def _getcwd():
    try:
        return os.getcwd()
    except FileNotFoundError:
        return '<deleted>'


def _escape(name):
    def f(*a, **k):
        raise kernel.SeamEscape(name)

    return f


ESCAPES = ['system', 'posix_spawn', 'posix_spawnp', 'fork', 'forkpty', 'execv', 'execve', 'execvp', 'execvpe',
           'execl', 'execle', 'execlp', 'execlpe', 'spawnl', 'spawnle', 'spawnlp', 'spawnlpe', 'spawnv', 'spawnve',
           'spawnvp', 'spawnvpe', 'popen']
