"""Seeds, named PRNG streams, simulated clock, event log, digests, the per-run context.

One integer (VERIF_SEED) decides everything: run i of a check gets
run_seed = sha256(master/property/i); inside a run every named stream is
random.Random(sha256(run_seed/name)).  Seeding `random.Random` with a str is
independent of PYTHONHASHSEED (it hashes the bytes with sha512).
Nothing in this module reads a real clock or draws from a PRNG when logging.
"""
import collections
import hashlib
import json
import random

EPOCH = 1_000_000_000.0


def h(*parts) -> str:
    return hashlib.sha256('/'.join(str(p) for p in parts).encode()).hexdigest()


def run_seed(master: int, prop: str, index: int) -> str:
    return h(master, prop, index)[:16]


def stream(seed: str, name: str) -> random.Random:
    return random.Random(h(seed, name))


def canon(obj) -> str:
    return json.dumps(obj, sort_keys=True, ensure_ascii=True, default=_default, separators=(',', ':'))


def _default(o):
    if isinstance(o, (set, frozenset)):
        return sorted(o)
    if isinstance(o, bytes):
        return o.decode('latin-1')
    if isinstance(o, float) and o == float('inf'):
        return 'inf'
    return repr(o)


def digest(obj) -> str:
    return hashlib.sha256(canon(obj).encode()).hexdigest()


class SimClock:
    def __init__(self):
        self.now = EPOCH
        self.advanced = 0.0

    def advance(self, d: float):
        self.now += d
        self.advanced += d


class SimHang(BaseException):
    """Exactly would now block forever (wait without timeout on a child that never exits)."""


class SeamEscape(BaseException):
    """The code under test reached the OS through a door the simulator does not own."""


class HarnessError(Exception):
    """The harness (not the property) is at fault: import mismatch, malformed plan, ..."""


class HarnessAbort(BaseException):
    """A bug inside harness code that runs *inside* Exactly (stubs, SimPopen).  A BaseException, so that no
    handler of Exactly can turn it into INTERNAL_ERROR / HARD_ERROR and thereby into a bogus verdict."""


def guarded(fn=None, allow=()):
    """Decorator for harness code called from inside Exactly: unexpected exceptions become HarnessAbort."""
    import functools
    import traceback

    def deco(fn):
        @functools.wraps(fn)
        def wrapper(*a, **k):
            try:
                return fn(*a, **k)
            except (HarnessAbort, SimHang, SeamEscape):
                raise
            except allow:
                raise
            except Exception:
                raise HarnessAbort(traceback.format_exc())

        return wrapper

    return deco(fn) if fn is not None else deco


class Sim:
    """Everything one simulated run owns."""

    def __init__(self, plan: dict, world):
        self.plan = plan
        self.world = world
        self.clock = SimClock()
        self.events = []
        self.procs = plan.get('procs', {})
        self.faults = {}
        for f in plan.get('faults', []):
            self.faults[(f['id'], f['step'])] = f
        self.spawns = []  # spawn events (dicts), in order
        self.children = []  # SimPopen objects
        self.trace = []  # stub trace events
        self.fired = []  # faults that fired
        self.counts = collections.Counter()  # reach probes
        self.invocations = collections.Counter()  # per tag
        self.fsfaults = [dict(f, seen=0, fired=0) for f in plan.get('fsfaults', [])]
        d = plan.get('diskfault')
        self.diskfault = dict(d, seen=0, fired=False, ops=[], seq=None, op=None, path=None) if d else None
        self.sandboxes = []  # created by resolver / mkdtemp
        self.std_streams = {}  # 'stdout' / 'stderr' of the simulated Exactly process (set by host.run_cli)
        self.resolver_fault = plan.get('resolver_fault')
        self.sandbox_requests = 0

    def ev(self, ev_kind: str, /, **fields) -> int:
        seq = len(self.events)
        fields['ev'] = ev_kind
        fields['seq'] = seq
        self.events.append(fields)
        return seq

    def digest(self) -> str:
        return digest(self.events)


CUR = None  # type: Sim


def cur() -> Sim:
    if CUR is None:
        raise HarnessError('no simulation in progress')
    return CUR


def set_cur(sim):
    global CUR
    CUR = sim
