"""Cooperative fault points that live outside the repo: the `sim-fault ID` instruction
(registered in every phase next to the real instruction set) and FaultableActor (wraps the
real default actor).  Every step call appends a trace event and consults the plan's fault table.
"""
import os

from . import kernel

EXC_CLASSES = {
    'RuntimeError': lambda: RuntimeError('injected'),
    'ValueError': lambda: ValueError('injected'),
    'OSError': lambda: OSError(28, 'No space left on device (injected)'),
    'KeyError': lambda: KeyError('injected'),
    'AssertionError': lambda: AssertionError('injected'),
    'RecursionError': lambda: RecursionError('injected'),
    'ZeroDivisionError': lambda: ZeroDivisionError('injected'),
    'UnicodeDecodeError': lambda: UnicodeDecodeError('utf-8', b'\xff', 0, 1, 'injected'),
    'TypeError': lambda: TypeError('injected'),
}

# expected classification of each fault kind (the model side; hard-coded from the property, not from the repo)
CLASS_OF_KIND = {
    'svh_validation': 'VALIDATION_ERROR', 'undefined_symbol': 'VALIDATION_ERROR',
    'svh_hard': 'HARD_ERROR', 'sh_hard': 'HARD_ERROR', 'pfh_hard': 'HARD_ERROR', 'eh_hard': 'HARD_ERROR',
    'raise_hard': 'HARD_ERROR', 'raise_exc': 'INTERNAL_ERROR', 'pfh_fail': 'FAIL',
    'parse_exception': 'SYNTAX_ERROR', 'exe_input_report': 'HARD_ERROR',
}

PHASE_OF_PREFIX = {'c': 'conf', 's': 'setup', 'b': 'before-assert', 'a': 'assert', 'l': 'cleanup'}
PREFIX_OF_PHASE = {v: k for k, v in PHASE_OF_PREFIX.items()}


def phase_of_id(ident: str) -> str:
    if ident == 'act':
        return 'act'
    return PHASE_OF_PREFIX[ident[0]]


def _cwd():
    try:
        return os.getcwd()
    except FileNotFoundError:
        return '<deleted>'


@kernel.guarded
def fire(ident: str, step: str, extra=None):
    sim = kernel.cur()
    ev = {'id': ident, 'step': step, 'cwd': _cwd(), 'extra': extra, 'seq': None}
    ev['seq'] = sim.ev('trace', id=ident, step=step, cwd=sim.world.norm(ev['cwd']), extra=sim.world.norm(extra),
                       spawns=len(sim.spawns))
    ev['n_spawns'] = len(sim.spawns)
    ev['n_sandboxes'] = len(sim.sandboxes)
    if sim.plan.get('observe_sbx') and sim.sandboxes and step in ('main', 'prepare', 'execute'):
        from . import observers
        ev['sbx_obs'] = observers.observe('sbx', sim, None)
        sim.ev('obs', id=ident, step=step, obs=sim.world.norm(ev['sbx_obs']))
    sim.trace.append(ev)
    f = sim.faults.get((ident, step))
    if f is None:
        return None
    if step == 'symbols':
        # symbol_usages() is documented as constant and callable at any time: idempotent kind
        if not f.get('_fired'):
            f['_fired'] = True
            sim.fired.append({'id': ident, 'step': step, 'kind': f['kind'], 'seq': ev['seq']})
            sim.ev('fault', id=ident, step=step, kind=f['kind'])
        return f
    sim.fired.append({'id': ident, 'step': step, 'kind': f['kind'], 'seq': ev['seq']})
    sim.ev('fault', id=ident, step=step, kind=f['kind'])
    return f


def build():
    """Imports exactly_lib lazily (so that an import mismatch is a harness error of the caller)
    and returns (instructions_setup_with_sim_fault, FaultableActor class)."""
    from exactly_lib.cli_default.program_modes.test_case import default_instructions_setup
    from exactly_lib.common.instruction_setup import SingleInstructionSetup
    from exactly_lib.common.report_rendering import text_docs
    from exactly_lib.processing.instruction_setup import InstructionsSetup
    from exactly_lib.section_document.element_parsers.section_element_parsers import InstructionParser
    from exactly_lib.symbol.sdv_structure import SymbolReference
    from exactly_lib.test_case.hard_error import HardErrorException
    from exactly_lib.test_case.phases.act.actor import Actor, ActionToCheck, ParseException
    from exactly_lib.test_case.phases.act.adv_w_validation import AdvWValidation
    from exactly_lib.test_case.phases.assert_ import AssertPhaseInstruction
    from exactly_lib.test_case.phases.before_assert import BeforeAssertPhaseInstruction
    from exactly_lib.test_case.phases.cleanup import CleanupPhaseInstruction
    from exactly_lib.test_case.phases.configuration import ConfigurationPhaseInstruction
    from exactly_lib.test_case.phases.setup.instruction import SetupPhaseInstruction
    from exactly_lib.test_case.result import sh, svh, pfh, eh
    from exactly_lib.test_case.result.failure_details import FailureDetails
    from exactly_lib.type_val_deps.sym_ref.w_str_rend_restrictions import reference_restrictions

    def msg():
        return text_docs.single_pre_formatted_line_object('injected')

    def raise_common(f):
        k = f['kind']
        if k == 'raise_hard':
            raise HardErrorException(msg())
        if k == 'raise_exc':
            raise EXC_CLASSES[f.get('exc', 'RuntimeError')]()

    def out_of_place(f, where):
        """A planned fault is of a kind that the step in which the stub finds itself cannot produce.  Plans arm every stub
        with a kind that fits the phase it is WRITTEN in: this can only happen when the code under test runs an
        instruction as part of another phase.  Not the harness' fault: recorded (the oracles report it), and the stub
        fails the way that step can."""
        sim = kernel.cur()
        sim.counts['stub_out_of_place'] += 1
        sim.ev('stub_out_of_place', id=f.get('id'), kind=f['kind'], where=where)

    def svh_result(f):
        if f is None:
            return svh.new_svh_success()
        raise_common(f)
        if f['kind'] == 'svh_validation':
            return svh.new_svh_validation_error(msg())
        if f['kind'] == 'svh_hard':
            return svh.new_svh_hard_error(msg())
        out_of_place(f, 'a validation step')
        return svh.new_svh_hard_error(msg())

    def sh_result(f):
        if f is None:
            return sh.new_sh_success()
        raise_common(f)
        if f['kind'] == 'sh_hard':
            return sh.new_sh_hard_error(msg())
        out_of_place(f, 'a main step')
        return sh.new_sh_hard_error(msg())

    def pfh_result(f):
        if f is None:
            return pfh.new_pfh_pass()
        raise_common(f)
        if f['kind'] == 'pfh_fail':
            return pfh.new_pfh_fail(msg())
        if f['kind'] == 'pfh_hard':
            return pfh.new_pfh_hard_error(msg())
        out_of_place(f, 'assert main')
        return pfh.new_pfh_hard_error(msg())

    def sym_result(f):
        if f is None:
            return []
        raise_common(f)
        if f['kind'] == 'undefined_symbol':
            return [SymbolReference('SIM_UNDEFINED_SYMBOL', reference_restrictions.is_any_type_w_str_rendering())]
        out_of_place(f, 'symbols')
        return []

    def settings_view(env, settings=None):
        pes = env.proc_exe_settings
        view = {'timeout': pes.timeout_in_seconds,
                'environ': None if pes.environ is None else dict(pes.environ)}
        if settings is not None:
            view['s_timeout'] = settings.timeout_in_seconds()
            e = settings.environ()
            view['s_environ'] = None if e is None else dict(e)
        return view

    class _WithValidation:
        def __init__(self, ident):
            self.ident = ident

        def symbol_usages(self):
            return sym_result(fire(self.ident, 'symbols'))

        def validate_pre_sds(self, environment):
            return svh_result(fire(self.ident, 'pre_sds'))

        def validate_post_setup(self, environment):
            return svh_result(fire(self.ident, 'post_setup'))

    class _FaultyStdin(AdvWValidation):
        """ATC execution input whose validation fails: the fault point of the step act/validate-exe-input."""

        def validate(self):
            f = fire('act', 'exe_input')
            if f is None:
                return None
            raise_common(f)
            if f['kind'] == 'exe_input_report':
                return msg()
            raise kernel.HarnessAbort('fault kind %s not applicable to act validate-exe-input' % f['kind'])

        def resolve(self, environment):
            # only reachable if the validation step was skipped or its failure ignored
            kernel.cur().ev('exe_input_resolved_without_successful_validation')
            raise RuntimeError('execution input used although its validation did not succeed')

    class SetupFault(_WithValidation, SetupPhaseInstruction):
        def main(self, environment, settings, os_services, settings_builder):
            r = sh_result(fire(self.ident, 'main', settings_view(environment, settings)))
            if ('act', 'exe_input') in kernel.cur().faults:
                settings_builder.stdin = _FaultyStdin()
            return r

    class BeforeAssertFault(_WithValidation, BeforeAssertPhaseInstruction):
        def main(self, environment, settings, os_services):
            return sh_result(fire(self.ident, 'main', settings_view(environment, settings)))

    class AssertFault(_WithValidation, AssertPhaseInstruction):
        def main(self, environment, settings, os_services):
            return pfh_result(fire(self.ident, 'main', settings_view(environment, settings)))

    class CleanupFault(CleanupPhaseInstruction):
        def __init__(self, ident):
            self.ident = ident

        def symbol_usages(self):
            return sym_result(fire(self.ident, 'symbols'))

        def validate_pre_sds(self, environment):
            return svh_result(fire(self.ident, 'pre_sds'))

        def main(self, environment, settings, os_services, previous_phase):
            view = settings_view(environment, settings)
            view['previous_phase'] = previous_phase.name
            return sh_result(fire(self.ident, 'main', view))

    class ConfFault(ConfigurationPhaseInstruction):
        def __init__(self, ident):
            self.ident = ident

        def main(self, configuration_builder):
            return svh_result(fire(self.ident, 'main'))

    class FaultableAtc(ActionToCheck):
        def __init__(self, real):
            self._real = real

        def symbol_usages(self):
            return list(sym_result(fire('act', 'symbols'))) + list(self._real.symbol_usages())

        def validate_pre_sds(self, environment):
            r = svh_result(fire('act', 'pre_sds'))
            return r if not r.is_success else self._real.validate_pre_sds(environment)

        def validate_post_setup(self, environment):
            r = svh_result(fire('act', 'post_setup'))
            return r if not r.is_success else self._real.validate_post_setup(environment)

        def prepare(self, environment, os_services):
            r = sh_result(fire('act', 'prepare'))
            return r if not r.is_success else self._real.prepare(environment, os_services)

        def execute(self, environment, os_services, atc_input, output_files):
            f = fire('act', 'execute', settings_view(environment))
            if f is not None:
                raise_common(f)
                if f['kind'] == 'eh_hard':
                    return eh.new_eh_hard_error(FailureDetails.new_constant_message('injected'))
                raise kernel.HarnessAbort('fault kind %s not applicable to act execute' % f['kind'])
            return self._real.execute(environment, os_services, atc_input, output_files)

    class FaultableActor(Actor):
        def __init__(self, real):
            self._real = real

        def parse(self, instructions):
            f = fire('act', 'parse')
            if f is not None:
                raise_common(f)
                if f['kind'] == 'parse_exception':
                    raise ParseException.of_str('injected')
                raise kernel.HarnessAbort('fault kind %s not applicable to act parse' % f['kind'])
            return FaultableAtc(self._real.parse(instructions))

    class _Parser(InstructionParser):
        def __init__(self, cls):
            self._cls = cls

        def parse(self, fs_location_info, source):
            ident = source.remaining_part_of_current_line.strip()
            source.consume_current_line()
            return self._cls(ident)

    def plus(instruction_set, cls):
        d = dict(instruction_set)
        d['sim-fault'] = SingleInstructionSetup(_Parser(cls), None)
        return d

    d = default_instructions_setup.INSTRUCTIONS_SETUP
    isetup = InstructionsSetup(plus(d.config_instruction_set, ConfFault),
                               plus(d.setup_instruction_set, SetupFault),
                               plus(d.before_assert_instruction_set, BeforeAssertFault),
                               plus(d.assert_instruction_set, AssertFault),
                               plus(d.cleanup_instruction_set, CleanupFault))
    return isetup, FaultableActor
