"""In-situ probes and scripted file-system actions of simulated children.

A simulated child runs in-process, so at the very moment a real child would have
started it can look at the sandbox (observe) or change it (perform).
Paths in actions may use $SBX (the most recent sandbox), $CWD and $HOME.
"""
import os


def _sbx(sim):
    return sim.sandboxes[-1] if sim.sandboxes else None


def _ls(d):
    try:
        return sorted(os.listdir(d))
    except OSError as ex:
        return 'ERR:' + type(ex).__name__


def _read(p, limit=4096):
    try:
        with open(p, 'rb') as f:
            return f.read(limit).decode('utf-8', errors='surrogateescape')
    except OSError as ex:
        return 'ERR:' + type(ex).__name__


def observe(name, sim, rec):
    sbx = _sbx(sim)
    if name == 'sbx':
        if sbx is None:
            return None
        res = {'root': _ls(sbx)}
        for d in ('act', 'tmp', 'result'):
            res[d] = _ls(os.path.join(sbx, d))
        r = os.path.join(sbx, 'result')
        res['result_files'] = {f: _read(os.path.join(r, f)) for f in (res['result'] if isinstance(res['result'], list) else [])}
        return res
    if name == 'cwd_ls':
        return _ls(rec['cwd'])
    if name == 'environ_of_process':
        return dict(os.environ)
    raise KeyError('unknown observer ' + name)


def _expand(path, sim, rec):
    sbx = _sbx(sim) or ''
    return (path.replace('$SBX', sbx).replace('$CWD', rec['cwd']).replace('$HOME', sim.world.home))


def perform(act, sim, rec):
    op = act['op']
    p = _expand(act['path'], sim, rec)
    if not os.path.isabs(p):
        p = os.path.join(rec['cwd'], p)
    if '<deleted>' in p:
        # the child stands in a directory that does not exist any more: what it tries to do there fails - its own business
        sim.ev('child_action_failed', tag=rec['tag'], op=op)
        return
    if op == 'write_file':
        os.makedirs(os.path.dirname(p), exist_ok=True)
        with open(p, 'w') as f:
            f.write(act.get('text', ''))
    elif op == 'chmod':
        if os.path.lexists(p):
            os.chmod(p, act['mode'])
    elif op == 'mkdir':
        os.makedirs(p, exist_ok=True)
    elif op == 'rmdir':
        if os.path.isdir(p):
            os.rmdir(p)
    elif op == 'mkfifo':
        if not os.path.lexists(p):
            os.mkfifo(p)
    elif op == 'symlink':
        # target is used verbatim: dangling links and loops are legal things for a child to leave behind
        if not os.path.lexists(p):
            os.symlink(act['target'], p)
    else:
        raise KeyError('unknown action ' + op)
    sim.ev('child_action', tag=rec['tag'], op=op, path=sim.world.norm(p))
