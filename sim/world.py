"""Scratch world of one run: home/ (case files), tmp/ (parent of sandboxes), io/ (Exactly's own stdout/stderr).

Deterministic sandbox naming, snapshots for 'nothing changed' oracles, path normalisation for logs.
"""
import hashlib
import os
import shutil
import stat

from . import kernel

FIXED_ENVIRON = {
    'PATH': '/usr/local/bin:/usr/bin:/bin',
    'HOME': '/nonexistent-sim-home',
    'LANG': 'C.UTF-8',
    'PWD': '/the-directory-the-shell-says-exactly-was-started-in',  # (shells export it; nothing keeps it up to date)
    'SIMBASE_A': 'base-a',
    'SIMBASE_B': 'b b',
}


WORLD_MTIME = 1_000_000_000


def install_fixed_environ():
    os.environ.clear()
    os.environ.update(FIXED_ENVIRON)


class World:
    def __init__(self, root: str):
        self.root = os.path.realpath(root)
        if os.path.exists(self.root):
            force_rmtree(self.root)
        self.home = os.path.join(self.root, 'home')
        self.tmp = os.path.join(self.root, 'tmp')
        self.io = os.path.join(self.root, 'io')
        for d in (self.home, self.tmp, self.io):
            os.makedirs(d)
        self._n = 0
        self.baseline_env = dict(FIXED_ENVIRON)

    # -- files --
    def write(self, rel: str, text=None, data: bytes = None, mode=None):
        p = os.path.join(self.root, rel)
        os.makedirs(os.path.dirname(p), exist_ok=True)
        with open(p, 'wb') as f:
            f.write(data if data is not None else text.encode('utf-8', errors='surrogateescape'))
        # the files of the world are written "at simulated time 0": one fixed modification time, whatever the wall
        # clock says (so nothing can depend on how fast the harness wrote them - and equal times are the rule)
        os.utime(p, (WORLD_MTIME, WORLD_MTIME))
        if mode is not None:
            os.chmod(p, mode)
        return p

    def populate(self, files: dict):
        for rel in sorted(files):
            spec = files[rel]
            if isinstance(spec, str):
                self.write(rel, text=spec)
            elif spec.get('dir'):
                os.makedirs(os.path.join(self.root, rel), exist_ok=True)
            elif spec.get('symlink'):
                p = os.path.join(self.root, rel)
                os.makedirs(os.path.dirname(p), exist_ok=True)
                os.symlink(spec['symlink'], p)
            else:
                self.write(rel, text=spec.get('text', ''), mode=spec.get('mode'))

    def is_inside(self, path: str) -> bool:
        return os.path.realpath(path).startswith(self.root + os.sep)

    # -- sandboxes --
    def new_sandbox(self, prefix='exactly-') -> str:
        sim = kernel.cur()
        self._n += 1
        sim.sandbox_requests += 1  # the fault is addressed by the request number within this simulation
        if sim.resolver_fault and sim.resolver_fault.get('nth', 1) == sim.sandbox_requests:
            import errno
            code = getattr(errno, sim.resolver_fault.get('errno', 'ENOSPC'))
            sim.ev('resolver_fault', n=self._n)
            sim.counts['resolver_fault_fired'] += 1
            raise OSError(code, os.strerror(code))
        p = os.path.join(self.tmp, 'sbx%04d' % self._n)
        os.mkdir(p)
        sim.sandboxes.append(p)
        sim.ev('sandbox', n=self._n, at_spawn=len(sim.spawns), at_trace=len(sim.trace))
        return p

    # -- normalisation --
    def norm(self, x):
        if isinstance(x, str):
            s = x
            if self.tmp in s:
                for i in range(self._n, 0, -1):
                    s = s.replace(os.path.join(self.tmp, 'sbx%04d' % i), '$SBX%d' % i)
            return s.replace(self.root, '$W')
        if isinstance(x, (list, tuple)):
            return [self.norm(e) for e in x]
        if isinstance(x, dict):
            return {k: self.norm(v) for k, v in x.items()}
        return x

    def env_diff(self, env: dict):
        base = self.baseline_env
        d = {}
        for k in sorted(set(base) | set(env)):
            if base.get(k) != env.get(k):
                d[k] = env.get(k)
        return self.norm(d)

    # -- snapshots --
    def snapshot(self, subdirs=('home', 'tmp')):
        out = []
        for sub in subdirs:
            top = os.path.join(self.root, sub)
            for dirpath, dirnames, filenames in os.walk(top):
                dirnames.sort()
                rel = os.path.relpath(dirpath, self.root)
                st = os.lstat(dirpath)
                out.append((rel, 'd', stat.S_IMODE(st.st_mode), 0, ''))
                for fn in sorted(filenames):
                    p = os.path.join(dirpath, fn)
                    st = os.lstat(p)
                    if stat.S_ISLNK(st.st_mode):
                        out.append((os.path.join(rel, fn), 'l', 0, 0, os.readlink(p)))
                    else:
                        try:
                            with open(p, 'rb') as f:
                                hsh = hashlib.sha256(f.read()).hexdigest()[:16]
                        except OSError:
                            hsh = 'unreadable'
                        out.append((os.path.join(rel, fn), 'f', stat.S_IMODE(st.st_mode), st.st_size, hsh))
        return out

    def tmp_entries(self):
        return sorted(os.listdir(self.tmp))

    def destroy(self):
        force_rmtree(self.root)


def force_rmtree(path):
    def onerror(func, p, exc):
        try:
            os.chmod(os.path.dirname(p), 0o700)
            os.chmod(p, 0o700)
            func(p)
        except OSError:
            pass

    for dirpath, dirnames, filenames in os.walk(path):
        try:
            os.chmod(dirpath, 0o700)
        except OSError:
            pass
    shutil.rmtree(path, onerror=onerror)
