"""Tiny real probe used only by selftest/fidelity.py:
   realprobe.py OUTFILE EXITCODE [args...] [--print TEXT] [--eprint TEXT] [--sleep SECONDS]
writes {"argv", "stdin", "cwd", "env"} as JSON to OUTFILE, prints, sleeps, exits with EXITCODE."""
import json
import os
import sys
import time

out, code = sys.argv[1], int(sys.argv[2])
rest = sys.argv[3:]
stdin = ''
try:
    if not sys.stdin.isatty():
        stdin = sys.stdin.read()
except Exception:
    pass
with open(out, 'w') as f:
    json.dump({'argv': sys.argv[1:], 'stdin': stdin, 'cwd': os.getcwd(), 'env': dict(os.environ)}, f)
if '--print' in rest:
    sys.stdout.write(rest[rest.index('--print') + 1] + '\n')
if '--eprint' in rest:
    sys.stderr.write(rest[rest.index('--eprint') + 1] + '\n')
sys.stdout.flush()
if '--sleep' in rest:
    time.sleep(float(rest[rest.index('--sleep') + 1]))
sys.exit(code)
