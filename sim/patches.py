"""Applies / removes every seam for the duration of one run:
subprocess.Popen, os.system & co, tempfile.mkdtemp, the suite layer's clock, platform.node, fs faults."""
import contextlib
import datetime as _dt
import os
import subprocess
import sys
import tempfile
import types

from . import kernel, procs, fsfaults, diskfaults

_REAL = {}

_CLOCK_MODULES = [
    'exactly_lib.test_suite.processing',
    'exactly_lib.test_suite.reporting',
    'exactly_lib.test_suite.reporters.simple_progress_reporter',
    'exactly_lib.test_suite.reporters.junit',
    'exactly_lib.cli_default.program_modes.test_suite',
]


class _SimDateTime(_dt.datetime):
    @classmethod
    def now(cls, tz=None):
        return _dt.datetime.fromtimestamp(kernel.cur().clock.now, _dt.timezone.utc).replace(tzinfo=None)

    @classmethod
    def today(cls):
        return cls.now()

    @classmethod
    def utcnow(cls):
        return cls.now()


class _DatetimeShim(types.SimpleNamespace):
    """Serves `datetime.datetime.now()` and, after `from datetime import datetime`, `datetime.now()`."""

    def now(self, tz=None):
        return _SimDateTime.now()

    def today(self):
        return _SimDateTime.now()

    def __call__(self, *a, **k):
        return _dt.datetime(*a, **k)


_SHIM = _DatetimeShim(datetime=_SimDateTime, timedelta=_dt.timedelta, date=_dt.date, time=_dt.time,
                      timezone=_dt.timezone)


def _mkdtemp(suffix=None, prefix=None, dir=None):
    return kernel.cur().world.new_sandbox(prefix or 'tmp')


def _rmdir_racing_with_stragglers(real_rmdir):
    """An interleaving the simulator decides: a child process that nobody has stopped (behaviour 'straggler': it keeps
    creating files in its current directory) gets to run just before that directory is removed - the removal then
    fails with ENOTEMPTY, as it does when a real sandbox is removed under a process that is still writing into it.
    A child that was killed, terminated or reaped does nothing."""

    def rmdir(path, *args, dir_fd=None, **kw):
        sim = kernel.cur()
        if sim is not None and any(ch.is_running_straggler() for ch in sim.children):
            try:
                full = os.fspath(path)
                if dir_fd is not None:
                    full = os.path.join(os.readlink('/proc/self/fd/%d' % dir_fd), full)
                full = os.path.realpath(full)
                for ch in sim.children:
                    if ch.is_running_straggler() and os.path.realpath(ch.rec['cwd']) == full:
                        with open(os.path.join(full, 'written-by-a-child-that-is-still-running'), 'w'):
                            pass
                        sim.counts['straggler_wrote'] += 1
                        sim.ev('straggler_write', tag=ch.tag, dir=sim.world.norm(full))
                        break
            except OSError:
                pass
        if dir_fd is None:
            return real_rmdir(path, *args, **kw)
        return real_rmdir(path, *args, dir_fd=dir_fd, **kw)

    return rmdir


@contextlib.contextmanager
def installed(sim: kernel.Sim):
    import importlib
    import filecmp
    # one simulated execution = one Exactly process: caches of the standard library that live as long as the interpreter
    # start empty (filecmp keeps verdicts keyed by path, size and mtime - and the files of the simulated world all carry
    # the same mtime, so a stale verdict of an earlier plan would otherwise be served for same-sized files)
    filecmp.clear_cache()
    saved_mod = []
    kernel.set_cur(sim)
    real_popen = subprocess.Popen
    real_mkdtemp = tempfile.mkdtemp
    real_tempdir = tempfile.tempdir
    saved_os = {}
    subprocess.Popen = procs.SimPopen
    tempfile.mkdtemp = _mkdtemp
    tempfile.tempdir = sim.world.io
    for name in procs.ESCAPES:
        if hasattr(os, name):
            saved_os[name] = getattr(os, name)
            setattr(os, name, procs._escape('os.' + name))
    for mn in _CLOCK_MODULES:
        try:
            m = importlib.import_module(mn)
        except ImportError:
            continue
        if hasattr(m, 'datetime'):
            saved_mod.append((m, 'datetime', m.datetime))
            m.datetime = _SHIM
        if hasattr(m, 'platform'):
            saved_mod.append((m, 'platform', m.platform))
            m.platform = types.SimpleNamespace(node=lambda: 'simhost')
    if sim.fsfaults:
        fsfaults.install()
    if sim.diskfault:
        if sim.fsfaults:
            raise kernel.HarnessError('a plan has either fsfaults or a diskfault')
        diskfaults.install()
    real_rmdir = os.rmdir
    os.rmdir = _rmdir_racing_with_stragglers(real_rmdir)
    try:
        yield sim
    finally:
        os.rmdir = real_rmdir
        if sim.diskfault:
            diskfaults.uninstall()
        if sim.fsfaults:
            fsfaults.uninstall()
        for m, attr, val in saved_mod:
            setattr(m, attr, val)
        for name, val in saved_os.items():
            setattr(os, name, val)
        subprocess.Popen = real_popen
        tempfile.mkdtemp = real_mkdtemp
        tempfile.tempdir = real_tempdir
        kernel.set_cur(None)
