"""Parallel runner: plans -> runs -> oracle; shrinking, replay files, fresh-interpreter confirmation,
known-finding matching, evidence writing.  Entry: main(argv) (called by /verif/check)."""
import argparse
import collections
import concurrent.futures
import faulthandler
import hashlib
import importlib
import json
import multiprocessing
import os
import shutil
import signal
import subprocess
import sys
import tempfile
import time
import traceback

from . import kernel, world as world_mod, host, shrink as shrink_mod

VERIF = os.path.dirname(os.path.dirname(os.path.abspath(__file__)))
CHUNK = 50
RUN_WALL_LIMIT = 60  # seconds of real time per run; a breach is a harness error, never exit 0
EXIT_OK, EXIT_VIOLATION, EXIT_HARNESS = 0, 1, 3


class RunTimeout(BaseException):
    pass


def _alarm(signum, frame):
    raise RunTimeout()


def load_engine(prop: str):
    return importlib.import_module('engines.' + prop.lower())


# ----------------------------------------------------------------------------- one run

def run_one(engine, plan, scratch):
    """Execute + judge one plan.  Returns (history, violations).
    Engines whose subject is state that leaks inside the interpreter (ISOLATE = True) run every plan in a forked
    child, so that one plan can never contaminate the next and every violation replays in a fresh interpreter."""
    if isolated(engine):
        return _run_one_forked(engine, plan, scratch)
    return _run_one_here(engine, plan, scratch)


ORIG_ENV = dict(os.environ)  # the caller's environment (os.environ itself is replaced by the fixed one)


def isolated(engine) -> bool:
    return bool(getattr(engine, 'ISOLATE', False)) or ORIG_ENV.get('VERIF_ISOLATE') == '1'


def _run_one_here(engine, plan, scratch):
    signal.signal(signal.SIGALRM, _alarm)
    signal.alarm(RUN_WALL_LIMIT)
    try:
        os.chdir(scratch)  # the previous run's world (and with it the cwd) is gone
        history = engine.execute(plan, scratch)
        violations = engine.oracle(plan, history)
    finally:
        signal.alarm(0)
    return history, violations


def _run_one_forked(engine, plan, scratch):
    import pickle
    r, w = os.pipe()
    sys.stdout.flush()
    pid = os.fork()
    if pid == 0:
        code = 0
        try:
            os.close(r)
            try:
                out = ('ok', _run_one_here(engine, plan, scratch))
            except RunTimeout:
                out = ('timeout', None)
            except BaseException:
                out = ('error', traceback.format_exc())
            with os.fdopen(w, 'wb') as f:
                pickle.dump(out, f)
        except BaseException:
            code = 1
        finally:
            os._exit(code)
    os.close(w)
    data = b''
    signal.signal(signal.SIGALRM, _alarm)
    signal.alarm(RUN_WALL_LIMIT + 10)
    try:
        with os.fdopen(r, 'rb') as f:
            data = f.read()
        os.waitpid(pid, 0)
    except RunTimeout:
        os.kill(pid, signal.SIGKILL)
        os.waitpid(pid, 0)
        raise
    finally:
        signal.alarm(0)
    if not data:
        raise kernel.HarnessError('isolated run died without a result')
    kind, val = pickle.loads(data)
    if kind == 'ok':
        return val
    if kind == 'timeout':
        raise RunTimeout()
    raise kernel.HarnessError('isolated run failed:\n%s' % val)


def _sig_hash(sig) -> int:
    return int.from_bytes(hashlib.sha256(kernel.canon(sig).encode()).digest()[:8], 'big')


_WORKER = {}


def _worker_init(repo_dir, scratch_base):
    world_mod.install_fixed_environ()
    host.bootstrap(repo_dir)
    d = tempfile.mkdtemp(prefix='w%d-' % os.getpid(), dir=scratch_base)
    _WORKER['scratch'] = d
    faulthandler.enable()
    _preimport()


def _preimport():
    """Import every module of exactly_lib up front (imports only, nothing is executed): forked, isolated runs then
    do not pay the lazy-import cost again and again."""
    import pkgutil
    import exactly_lib
    for m in pkgutil.walk_packages(exactly_lib.__path__, 'exactly_lib.'):
        if '.help' in m.name and 'contents' in m.name:
            continue
        try:
            importlib.import_module(m.name)
        except Exception:
            pass


def _work_chunk(args):
    prop, master, tier, start, stop, total = args
    engine = load_engine(prop)
    scratch = _WORKER['scratch']
    res = {
        'start': start, 'n': 0, 'digests': hashlib.sha256(), 'sigs': set(), 'hist': set(), 'nontrivial': 0,
        'probes': collections.Counter(), 'armed': collections.Counter(), 'fired': collections.Counter(),
        'sim_seconds': 0.0, 'violations': [], 'samples': [], 'harness': [], 'first_seed': None, 'last_seed': None,
        'discarded': 0, 'sweep': 0,
    }
    for i in range(start, stop):
        try:
            plan = engine.make_plan(i, master, tier)
        except Exception:
            res['harness'].append({'index': i, 'where': 'make_plan', 'tb': traceback.format_exc()[-2000:]})
            continue
        if plan is None:
            continue
        if res['first_seed'] is None:
            res['first_seed'] = plan.get('run_seed')
        res['last_seed'] = plan.get('run_seed')
        try:
            history, violations = run_one(engine, plan, scratch)
        except RunTimeout:
            res['harness'].append({'index': i, 'where': 'wall-limit', 'tb': 'run exceeded %ds' % RUN_WALL_LIMIT})
            continue
        except kernel.HarnessError:
            res['harness'].append({'index': i, 'where': 'engine', 'tb': traceback.format_exc()[-2000:]})
            continue
        except Exception:
            res['harness'].append({'index': i, 'where': 'engine', 'tb': traceback.format_exc()[-2000:]})
            continue
        res['n'] += 1
        res['digests'].update(kernel.digest(plan).encode())  # the generated input is part of what must be reproducible
        res['digests'].update(history['digest'].encode())
        res['hist'].add(_sig_hash(history['digest']))
        if plan.get('sweep'):
            res['sweep'] += 1
        if history.get('discarded'):
            res['discarded'] += 1
        nontrivial, sig = engine.signature(plan, history)
        if nontrivial:
            res['nontrivial'] += 1
            res['sigs'].add(_sig_hash(sig))
        res['probes'].update(history.get('probes', {}))
        res['armed'].update(history.get('armed', {}))
        res['fired'].update(history.get('fired', {}))
        res['sim_seconds'] += history.get('sim_seconds', 0.0)
        if violations and len(res['violations']) < 4:
            res['violations'].append({'index': i, 'plan': plan, 'violations': violations,
                                      'digest': history['digest']})
        elif violations:
            res['violations_more'] = res.get('violations_more', 0) + 1
        if i < 3 or (nontrivial and len(res['samples']) < 1 and start % (CHUNK * 7) == 0):
            if len(res['samples']) < 3:
                res['samples'].append({'plan': plan, 'history': engine.sample_view(plan, history)})
    res['digests'] = res['digests'].hexdigest()
    return res


# ----------------------------------------------------------------------------- known findings

def load_known():
    p = os.path.join(VERIF, 'known_findings.json')
    if not os.path.exists(p):
        return []
    with open(p) as f:
        return json.load(f).get('findings', [])


def match_known(engine, plan, history, violation, findings):
    f = getattr(engine, 'classify_known', None)
    if f is None:
        return None
    for kf in findings:
        if kf.get('property') != engine.PROPERTY or kf.get('status') != 'known':
            continue
        try:
            if f(plan, history, violation, kf):
                return kf
        except Exception:
            continue
    return None


# ----------------------------------------------------------------------------- replay

def write_replay(prop, master, n, plan, violation, digest):
    d = os.path.join(VERIF, 'replays')
    os.makedirs(d, exist_ok=True)
    p = os.path.join(d, '%s-%s-%d.json' % (prop, master, n))
    out = dict(plan)
    out['violation'] = dict(violation, digest=digest)
    with open(p, 'w') as f:
        json.dump(out, f, indent=1, sort_keys=True, default=kernel._default)
    return p


def replay(engine, path, scratch, quiet=False):
    with open(path) as f:
        plan = json.load(f)
    want = (plan.get('violation') or {}).get('rule')
    history, violations = run_one(engine, plan, scratch)
    findings = load_known()
    rules = []
    for v in violations:
        if match_known(engine, plan, history, v, findings) is None:
            rules.append(v['rule'])
    hit = [v for v in violations if v['rule'] == want] if want else violations
    if not quiet:
        for v in violations:
            print('  rule=%s expected=%s observed=%s' % (v['rule'], _short(v.get('expected')), _short(v.get('observed'))))
    if (want and want in rules) or (not want and rules):
        return True, history, violations
    return False, history, violations


def _short(x, n=300):
    s = kernel.canon(x) if not isinstance(x, str) else x
    return s if len(s) <= n else s[:n] + '...'


def confirm_fresh(prop, path, repo_dir):
    """Re-execute the replay file in a fresh interpreter; True iff the same rule fails again."""
    env = dict(ORIG_ENV)
    env['PYTHONPATH'] = VERIF
    env['PYTHONDONTWRITEBYTECODE'] = '1'
    env['VERIF_REPO'] = repo_dir
    env.setdefault('PYTHONHASHSEED', '0')
    cmd = [sys.executable, '-W', 'ignore', '-c', 'from sim.runner import main; main()', prop, '--replay', path,
           '--no-confirm']
    p = subprocess.run(cmd, env=env, cwd=VERIF, stdout=subprocess.PIPE, stderr=subprocess.STDOUT, timeout=600)
    return p.returncode == EXIT_VIOLATION, p.stdout.decode(errors='replace')


# ----------------------------------------------------------------------------- main

def main(argv=None):
    ap = argparse.ArgumentParser(prog='check')
    ap.add_argument('property')
    ap.add_argument('--tier', default=os.environ.get('VERIF_TIER') or 'quick', choices=['quick', 'thorough'])
    ap.add_argument('--replay')
    ap.add_argument('--seed', type=int, default=int(os.environ.get('VERIF_SEED') or 1))
    ap.add_argument('--runs', type=int)
    ap.add_argument('--jobs', type=int, default=int(os.environ.get('VERIF_JOBS') or 0) or (os.cpu_count() or 4))
    ap.add_argument('--no-confirm', action='store_true')
    ap.add_argument('--no-evidence', action='store_true')
    ap.add_argument('--no-shrink', action='store_true')
    ap.add_argument('--digest-only', action='store_true', help='print per-chunk digests (determinism self-test)')
    ap.add_argument('--start', type=int, default=0)
    a = ap.parse_args(argv)
    if os.environ.get('VERIF_TIER'):
        a.tier = os.environ['VERIF_TIER']
    repo_dir = os.environ.get('VERIF_REPO') or '/repo'
    prop = a.property.upper()
    t0 = time.time()
    scratch_base = tempfile.mkdtemp(prefix='exactly-verif-')
    code = EXIT_HARNESS
    try:
        code = _main(a, prop, repo_dir, scratch_base, t0)
    except kernel.HarnessError as ex:
        print('HARNESS %s' % ex)
        code = EXIT_HARNESS
    except Exception:
        print('HARNESS unexpected exception in the runner')
        traceback.print_exc()
        code = EXIT_HARNESS
    finally:
        world_mod.force_rmtree(scratch_base)
    sys.stdout.flush()
    sys.exit(code)


def _main(a, prop, repo_dir, scratch_base, t0):
    world_mod.install_fixed_environ()
    host.bootstrap(repo_dir)
    engine = load_engine(prop)
    if isolated(engine):
        _preimport()
    if a.replay:
        ok, history, violations = replay(engine, a.replay, scratch_base)
        if ok:
            print('VIOLATION property=%s replay=%s' % (prop, a.replay))
            return EXIT_VIOLATION
        print('replay: the recorded rule does not fail on this tree (property=%s)' % prop)
        return EXIT_OK

    total = a.runs if a.runs is not None else engine.total_runs(a.tier)
    master = a.seed
    chunks = [(prop, master, a.tier, s, min(s + CHUNK, a.start + total), total)
              for s in range(a.start, a.start + total, CHUNK)]
    agg = {
        'n': 0, 'sigs': set(), 'hist': set(), 'nontrivial': 0, 'probes': collections.Counter(),
        'armed': collections.Counter(), 'fired': collections.Counter(), 'sim_seconds': 0.0,
        'violations': [], 'samples': [], 'harness': [], 'chunk_digests': {}, 'discarded': 0, 'sweep': 0,
        'violations_more': 0,
    }
    first_seed = last_seed = None
    ctx = multiprocessing.get_context('fork')
    batch_limit = int(ORIG_ENV.get('VERIF_BATCH_WALL') or (900 if a.tier == 'quick' else 7200))
    with concurrent.futures.ProcessPoolExecutor(max_workers=a.jobs, mp_context=ctx, initializer=_worker_init,
                                                initargs=(repo_dir, scratch_base)) as pool:
        futs = [pool.submit(_work_chunk, c) for c in chunks]
        try:
            for fut in concurrent.futures.as_completed(futs, timeout=batch_limit):
                r = fut.result()
                agg['n'] += r['n']
                agg['sigs'] |= r['sigs']
                agg['hist'] |= r['hist']
                agg['nontrivial'] += r['nontrivial']
                agg['probes'].update(r['probes'])
                agg['armed'].update(r['armed'])
                agg['fired'].update(r['fired'])
                agg['sim_seconds'] += r['sim_seconds']
                agg['violations'].extend(r['violations'])
                agg['violations_more'] += r.get('violations_more', 0)
                agg['harness'].extend(r['harness'])
                agg['discarded'] += r['discarded']
                agg['sweep'] += r['sweep']
                agg['chunk_digests'][r['start']] = r['digests']
                if r['start'] == a.start:
                    first_seed = r['first_seed']
                    agg['samples'] = r['samples'] + agg['samples']
                elif len(agg['samples']) < 3:
                    agg['samples'].extend(r['samples'][:3 - len(agg['samples'])])
                if r['start'] + CHUNK >= a.start + total:
                    last_seed = r['last_seed']
        except concurrent.futures.TimeoutError:
            print('HARNESS batch wall limit (%ds) exceeded' % batch_limit)
            for f in futs:
                f.cancel()
            pool.shutdown(wait=False, cancel_futures=True)
            return EXIT_HARNESS
        except concurrent.futures.process.BrokenProcessPool:
            print('HARNESS a worker process died')
            return EXIT_HARNESS
    dod = hashlib.sha256(''.join(agg['chunk_digests'][k] for k in sorted(agg['chunk_digests'])).encode()).hexdigest()
    if a.digest_only:
        for k in sorted(agg['chunk_digests']):
            print('DIGEST %d %s' % (k, agg['chunk_digests'][k]))
    wall_runs = time.time() - t0

    if agg['harness']:
        h0 = agg['harness'][0]
        print('HARNESS %d run(s) failed inside the harness; first: index=%s where=%s\n%s'
              % (len(agg['harness']), h0['index'], h0['where'], h0['tb']))
        return EXIT_HARNESS

    # ---- violations: known findings, shrinking, replay files, confirmation
    findings = load_known()
    known_hit = collections.OrderedDict()
    to_report = collections.OrderedDict()  # rule -> record
    agg['violations'].sort(key=lambda r: r['index'])
    for rec in agg['violations']:
        plan = rec['plan']
        # need the history for the classifier: re-execute (deterministic)
        history, violations = run_one(engine, plan, scratch_base)
        for v in violations:
            kf = match_known(engine, plan, history, v, findings)
            if kf is not None:
                known_hit.setdefault(kf['id'], kf)
                continue
            if v['rule'] not in to_report:
                to_report[v['rule']] = {'plan': plan, 'violation': v, 'index': rec['index'],
                                        'digest': history['digest']}
    n_viol = 0
    harness_nonrepro = False
    for n, (rule, rec) in enumerate(to_report.items()):
        plan = rec['plan']
        if not a.no_shrink:
            def fails_same(p, rule=rule):
                h, vs = run_one(engine, p, scratch_base)
                return any(v['rule'] == rule and match_known(engine, p, h, v, findings) is None for v in vs)

            plan, used = shrink_mod.shrink(plan, fails_same, budget=int(ORIG_ENV.get('VERIF_SHRINK_BUDGET') or 300),
                                           normalize=getattr(engine, 'normalize', None))
            h, vs = run_one(engine, plan, scratch_base)
            vv = [v for v in vs if v['rule'] == rule]
            if vv:
                rec = {'plan': plan, 'violation': vv[0], 'index': rec['index'], 'digest': h['digest']}
        path = write_replay(prop, master, n, rec['plan'], rec['violation'], rec['digest'])
        if a.no_confirm:
            ok, out = True, ''
        else:
            ok, out = confirm_fresh(prop, path, repo_dir)
        if ok:
            n_viol += 1
            print('  rule=%s expected=%s observed=%s' % (rule, _short(rec['violation'].get('expected')),
                                                        _short(rec['violation'].get('observed'))))
            print('VIOLATION property=%s replay=%s' % (prop, path))
        else:
            harness_nonrepro = True
            print('HARNESS non-reproducible violation rule=%s replay=%s\n%s' % (rule, path, out[-1500:]))
    for kf in known_hit.values():
        print('KNOWN-FINDING: property=%s %s' % (prop, kf['what']))

    # ---- coverage warnings
    zero = [p for p in getattr(engine, 'REACH_PROBES', []) if agg['probes'].get(p, 0) == 0]
    if zero:
        print('COVERAGE-WARNING property=%s probes at zero: %s' % (prop, ', '.join(zero)))

    wall = time.time() - t0
    if not a.no_evidence:
        ev = {
            'property_id': prop, 'tier': a.tier, 'seed': master, 'level': engine.LEVEL,
            'coverage': {
                'evaluations': agg['n'],
                'distinct_nontrivial': len(agg['sigs']),
                'rule': engine.RULE_TEXT,
                'samples': agg['samples'][:3],
                'exhaustive_sweep': bool(getattr(engine, 'EXHAUSTIVE_SWEEP', False)),
                'sweep_runs': agg['sweep'],
                'nontrivial_runs': agg['nontrivial'],
                'discarded_trivial': agg['discarded'],
                'seeds': {'master': master, 'first_run_seed': first_seed, 'last_run_seed': last_seed},
                'runs_per_hour': round(agg['n'] / max(wall_runs, 1e-6) * 3600),
                'simulated_seconds': round(agg['sim_seconds'], 3),
                'faults_armed': dict(sorted(agg['armed'].items())),
                'faults_fired': dict(sorted(agg['fired'].items())),
                'probes': dict(sorted(agg['probes'].items())),
                'probes_at_zero': zero,
                'distinct_histories': len(agg['hist']),
                'digest_of_digests': dod,
                'real_components': getattr(engine, 'REAL_COMPONENTS', REAL_COMPONENTS),
                'stub_components': getattr(engine, 'STUB_COMPONENTS', STUB_COMPONENTS),
                'known_findings_hit': sorted(known_hit),
                'jobs': a.jobs,
            },
            'assumptions': getattr(engine, 'ASSUMPTIONS', ASSUMPTIONS),
            'wall_s': round(wall, 2),
            'violations': n_viol,
        }
        os.makedirs(os.path.join(VERIF, 'evidence'), exist_ok=True)
        with open(os.path.join(VERIF, 'evidence', prop + '.json'), 'w') as f:
            json.dump(ev, f, indent=1, sort_keys=True, default=kernel._default)
    print('%s %s: runs=%d distinct_nontrivial=%d distinct_histories=%d sim_seconds=%.1f wall=%.1fs violations=%d known=%d dod=%s'
          % (prop, a.tier, agg['n'], len(agg['sigs']), len(agg['hist']), agg['sim_seconds'], wall, n_viol,
             len(known_hit), dod[:16]))
    if harness_nonrepro and not isolated(engine) and not a.digest_only:
        # A violation seen in a worker that does not fail in a fresh interpreter: some state inside the interpreter
        # outlived the plan that set it, so plans that share a worker are no longer independent executions.  The
        # whole batch is repeated in a fresh process with every plan in a forked child of a worker that itself never
        # executes a plan; what that pass reports is the answer.
        print('NOTE interpreter-global state leaked from one plan into another; repeating the batch with every plan '
              'in a forked child (VERIF_ISOLATE=1)')
        sys.stdout.flush()
        import subprocess
        env = dict(ORIG_ENV, VERIF_ISOLATE='1', PYTHONPATH=VERIF, PYTHONDONTWRITEBYTECODE='1', VERIF_REPO=repo_dir)
        env.setdefault('PYTHONHASHSEED', '0')
        return subprocess.call([sys.executable, '-W', 'ignore', '-c', 'from sim.runner import main; main()']
                               + sys.argv[1:], env=env, cwd=VERIF)
    if harness_nonrepro:
        return EXIT_HARNESS
    return EXIT_VIOLATION if n_viol else EXIT_OK


REAL_COMPONENTS = [
    'all of exactly_lib from the working tree: CLI argument parsing, section-document parser, instructions and types, '
    'symbol validation, phase-step executor, result reporters, suite reader/runner/reporters',
    "the standard library's subprocess.call control flow (wait with timeout, kill, reap)",
    'the real file system under a scratch directory (sandbox creation/removal, result files, chmod, rmtree)',
    'real os.chdir / os.environ of the interpreter',
]
STUB_COMPONENTS = [
    'OS child processes: SimPopen + scripted behaviours (exit code, output, duration, spawn error, SIGTERM-deafness)',
    'the wall clock (SimClock; suite-layer datetime rebinding)',
    'temp-directory naming (deterministic sandbox resolver, tempfile.mkdtemp)',
    'platform.node()',
    'planned OSErrors on planned paths (fs-fault seam)',
    'cooperative fault points added to (not substituted for) the real instruction set: sim-fault, FaultableActor',
]
ASSUMPTIONS = [
    'SimPopen is a faithful model of the Popen contract the repo relies on (argv, fds, env, cwd, exit code, '
    'timeout -> kill), as validated by the seam-fidelity self-test against real processes',
    'the reference models in /verif/engines encode the property statements correctly',
    'the Python standard library',
    'the simulator samples: a clean batch is evidence, not proof; only sweep parts are exhaustive',
]
