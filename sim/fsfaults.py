"""Planned OSError on planned paths: wrappers on io.open / builtins.open that raise for the
k-th open whose path ends with a planned suffix.  Only installed when the plan has fsfaults."""
import builtins
import errno
import io
import os

from . import kernel

_REAL_OPEN = io.open


def _faulty_open(file, *a, **k):
    sim = kernel.CUR
    if sim is not None and sim.fsfaults and not isinstance(file, int):
        try:
            p = os.fspath(file)
        except TypeError:
            p = None
        if isinstance(p, bytes):
            p = p.decode()
        if p is not None:
            ap = os.path.abspath(p)
            for f in sim.fsfaults:
                if ap.endswith(f['path_suffix']):
                    f['seen'] += 1
                    if f.get('nth', 0) in (0, f['seen']):
                        f['fired'] += 1
                        sim.counts['fsfault_fired'] += 1
                        sim.ev('fsfault', path=sim.world.norm(ap), errno=f['errno'])
                        code = getattr(errno, f['errno'])
                        raise OSError(code, os.strerror(code), p)
    return _REAL_OPEN(file, *a, **k)


def install():
    io.open = _faulty_open
    builtins.open = _faulty_open


def uninstall():
    io.open = _REAL_OPEN
    builtins.open = _REAL_OPEN
