"""Disk faults: the n-th file-system operation by which *Exactly itself* creates something inside the simulated world
(a directory, a file, an anonymous temporary file) fails with a planned errno (ENOSPC, EDQUOT, EIO, EMFILE, ...) -
"the disk is full / the quota is exhausted / the descriptor table is full at exactly that instant".

Seam: builtins.open / io.open / os.mkdir / os.open are module attributes that pathlib, shutil, tempfile and Exactly's
own code look up at call time; they are replaced for the duration of one simulated execution (only when the plan has
a `diskfault`).  An operation counts when
  * its target lies inside the world of the run,
  * it would create a new entry (mkdir of a name that does not exist; open with w / x / a / + on a name that does not
    exist, or with w / x at all; os.open with O_CREAT on a name that does not exist, or with O_TMPFILE) - a kernel
    reports EEXIST before it reports ENOSPC, so operations on existing entries are left alone, and
  * the nearest frame on the call stack that belongs either to the harness (/verif) or to exactly_lib belongs to
    exactly_lib: what simulated children, stubs, observers and the harness do to the disk is not Exactly's doing.
Every counted operation is numbered; number `nth` of the plan raises OSError(errno).  The fault is one-shot.

`at` of the plan selects what is numbered: 'create' (above; the default), or - on the files that Exactly has opened for
writing inside the world, which are then handed out wrapped in a thin proxy - 'write' (the n-th write: half of the data
reaches the file, then the error: a short write on a full disk) or 'close' (the n-th close: the file is closed, then
the error is reported, as a buffered file reports ENOSPC only when it is flushed).
"""
import builtins
import errno
import io
import os
import re
import sys

from . import kernel

_REAL = {'open': io.open, 'mkdir': os.mkdir, 'os_open': os.open}
_VERIF = os.path.dirname(os.path.dirname(os.path.abspath(__file__))) + os.sep
_O_TMPFILE = getattr(os, 'O_TMPFILE', 0)


_THIS = os.path.abspath(__file__)


def _owned_by_exactly() -> bool:
    f = sys._getframe(1)
    while f is not None:
        fn = f.f_code.co_filename
        if fn == _THIS:
            f = f.f_back
            continue
        if fn.startswith(_VERIF):
            return False
        if (os.sep + 'exactly_lib' + os.sep) in fn:
            return True
        f = f.f_back
    return False


def _count(op: str, path, creating):
    sim = kernel.CUR
    if sim is None or sim.diskfault is None:
        return None
    try:
        p = os.fspath(path)
    except TypeError:
        return None
    if isinstance(p, bytes):
        p = os.fsdecode(p)
    try:
        ap = os.path.abspath(p)
    except OSError:
        return None  # (a relative name while the current directory does not exist any more: the operation fails by itself)
    if not ap.startswith(sim.world.root + os.sep):
        return None
    if not creating(ap):
        return None
    if not _owned_by_exactly():
        return None
    d = sim.diskfault
    rel = sim.world.norm(ap)
    if rel.startswith('$W/io/'):
        # temporary files carry names that tempfile draws from os.urandom: never part of a log
        rel = '$W/io/' + re.sub(r'[a-z0-9_]{8}$', '<random>', rel[len('$W/io/'):])
    if d.get('at', 'create') != 'create':
        return rel  # (owned creation inside the world: the caller wraps the file)
    _numbered(sim, d, op, rel, p)
    return None


def _numbered(sim, d, op, rel, p, before_raising=None):
    d['seen'] += 1
    d['ops'].append((op, rel))
    if d['seen'] == d['nth'] and not d['fired']:
        d['fired'] = True
        d['op'], d['path'] = op, rel
        try:
            cwd = os.getcwd()
            d['in_sandbox'] = any(cwd == sb or cwd.startswith(sb + os.sep) for sb in sim.sandboxes)
        except OSError:
            d['in_sandbox'] = True  # the current directory has been removed (by a child): only possible inside the sandbox
            d['cwd_gone'] = True
        d['seq'] = sim.ev('diskfault', op=op, path=rel, errno=d['errno'], n=d['seen'])
        sim.counts['diskfault_fired'] += 1
        if before_raising is not None:
            before_raising()
        code = getattr(errno, d['errno'])
        raise OSError(code, os.strerror(code), p)


class _WrittenByExactly:
    """A file that Exactly opened for writing inside the world: everything is delegated; write and close are numbered."""

    def __init__(self, f, rel, path):
        self.__dict__['_f'] = f
        self.__dict__['_rel'] = rel
        self.__dict__['_path'] = path

    def _fault(self, op, before_raising=None):
        sim = kernel.CUR
        if sim is None or sim.diskfault is None or sim.diskfault.get('at') != op or not _owned_by_exactly():
            return
        _numbered(sim, sim.diskfault, op, self._rel, self._path, before_raising)

    def write(self, data):
        self._fault('write', lambda: (self._f.write(data[:len(data) // 2]), self._f.flush()))
        return self._f.write(data)

    def writelines(self, lines):
        for ln in lines:
            self.write(ln)

    def close(self):
        if not self._f.closed:
            self._fault('close', self._f.close)
        return self._f.close()

    def __enter__(self):
        return self

    def __exit__(self, *exc):
        self.close()
        return False

    def __iter__(self):
        return iter(self._f)

    def __next__(self):
        return next(self._f)

    def __getattr__(self, name):
        return getattr(self._f, name)

    def __setattr__(self, name, value):
        setattr(self._f, name, value)


def _new(ap):
    return not os.path.lexists(ap)


def _open(file, mode='r', *a, **k):
    rel = None
    # (with an `opener`, the creation is the opener's os.open - counted there: tempfile.TemporaryFile)
    if not isinstance(file, int) and isinstance(mode, str) and any(c in mode for c in 'wxa+') and k.get('opener') is None:
        sim = kernel.CUR
        wrapping = sim is not None and sim.diskfault is not None and sim.diskfault.get('at', 'create') != 'create'
        rel = _count('create', file, (lambda ap: True) if (wrapping or 'w' in mode or 'x' in mode) else _new)
    f = _REAL['open'](file, mode, *a, **k)
    if rel is not None:
        return _WrittenByExactly(f, rel, os.fspath(file))
    return f


def _mkdir(path, *a, **k):
    if k.get('dir_fd') is None:
        _count('mkdir', path, _new)
    return _REAL['mkdir'](path, *a, **k)


def _os_open(path, flags, *a, **k):
    if k.get('dir_fd') is None:
        if _O_TMPFILE and flags & _O_TMPFILE == _O_TMPFILE:
            _count('tmpfile', os.path.join(os.fspath(path), '<anonymous>'), lambda ap: True)
        elif flags & os.O_CREAT:
            _count('create', path, _new)
    return _REAL['os_open'](path, flags, *a, **k)


def install():
    io.open = _open
    builtins.open = _open
    os.mkdir = _mkdir
    os.open = _os_open


def uninstall():
    io.open = _REAL['open']
    builtins.open = _REAL['open']
    os.mkdir = _REAL['mkdir']
    os.open = _REAL['os_open']
