"""Disk faults: the n-th file-system operation by which *Exactly itself* creates something inside the simulated world
(a directory, a file, an anonymous temporary file) fails with a planned errno (ENOSPC, EDQUOT, EIO, EMFILE, ...) -
"the disk is full / the quota is exhausted / the descriptor table is full at exactly that instant".

Seam: builtins.open / io.open / os.mkdir / os.open are module attributes that pathlib, shutil, tempfile and Exactly's
own code look up at call time; they are replaced for the duration of one simulated execution (only when the plan has
a `diskfault`).  An operation counts when
  * its target lies inside the world of the run,
  * it would create a new entry (mkdir of a name that does not exist; open with w / x / a / + on a name that does not
    exist, or with w / x at all; os.open with O_CREAT on a name that does not exist, or with O_TMPFILE) - a kernel
    reports EEXIST before it reports ENOSPC, so operations on existing entries are left alone, and
  * the nearest frame on the call stack that belongs either to the harness (/verif) or to exactly_lib belongs to
    exactly_lib: what simulated children, stubs, observers and the harness do to the disk is not Exactly's doing.
Every counted operation is numbered; number `nth` of the plan raises OSError(errno).  The fault is one-shot.
"""
import builtins
import errno
import io
import os
import sys

from . import kernel

_REAL = {'open': io.open, 'mkdir': os.mkdir, 'os_open': os.open}
_VERIF = os.path.dirname(os.path.dirname(os.path.abspath(__file__))) + os.sep
_O_TMPFILE = getattr(os, 'O_TMPFILE', 0)


def _owned_by_exactly() -> bool:
    f = sys._getframe(3)
    while f is not None:
        fn = f.f_code.co_filename
        if fn.startswith(_VERIF):
            return False
        if (os.sep + 'exactly_lib' + os.sep) in fn:
            return True
        f = f.f_back
    return False


def _count(op: str, path, creating) -> None:
    sim = kernel.CUR
    if sim is None or sim.diskfault is None:
        return
    try:
        p = os.fspath(path)
    except TypeError:
        return
    if isinstance(p, bytes):
        p = os.fsdecode(p)
    ap = os.path.abspath(p)
    if not ap.startswith(sim.world.root + os.sep):
        return
    if not creating(ap):
        return
    if not _owned_by_exactly():
        return
    d = sim.diskfault
    d['seen'] += 1
    rel = sim.world.norm(ap)
    d['ops'].append((op, rel))
    if d['seen'] == d['nth'] and not d['fired']:
        d['fired'] = True
        d['op'], d['path'] = op, rel
        d['seq'] = sim.ev('diskfault', op=op, path=rel, errno=d['errno'], n=d['seen'])
        sim.counts['diskfault_fired'] += 1
        code = getattr(errno, d['errno'])
        raise OSError(code, os.strerror(code), p)


def _new(ap):
    return not os.path.lexists(ap)


def _open(file, mode='r', *a, **k):
    if not isinstance(file, int) and isinstance(mode, str) and any(c in mode for c in 'wxa+'):
        _count('create', file, (lambda ap: True) if ('w' in mode or 'x' in mode) else _new)
    return _REAL['open'](file, mode, *a, **k)


def _mkdir(path, *a, **k):
    if k.get('dir_fd') is None:
        _count('mkdir', path, _new)
    return _REAL['mkdir'](path, *a, **k)


def _os_open(path, flags, *a, **k):
    if k.get('dir_fd') is None:
        if _O_TMPFILE and flags & _O_TMPFILE == _O_TMPFILE:
            _count('tmpfile', os.path.join(os.fspath(path), '<anonymous>'), lambda ap: True)
        elif flags & os.O_CREAT:
            _count('create', path, _new)
    return _REAL['os_open'](path, flags, *a, **k)


def install():
    io.open = _open
    builtins.open = _open
    os.mkdir = _mkdir
    os.open = _os_open


def uninstall():
    io.open = _REAL['open']
    builtins.open = _REAL['open']
    os.mkdir = _REAL['mkdir']
    os.open = _REAL['os_open']
