"""Shared generators/renderers: abstract case model -> test-case text."""

PHASES = ['conf', 'setup', 'act', 'before-assert', 'assert', 'cleanup']
INSTR_PHASES = ['conf', 'setup', 'before-assert', 'assert', 'cleanup']
PREFIX = {'conf': 'c', 'setup': 's', 'before-assert': 'b', 'assert': 'a', 'cleanup': 'l'}


def render_item(item) -> str:
    if item.get('desc'):
        # "`DESCRIPTION` INSTRUCTION": an instruction may be preceded by a description (which may span several lines)
        return '`%s` %s' % (item['desc'], render_item({k: v for k, v in item.items() if k != 'desc'}))
    k = item['k']
    if k == 'fault':
        return 'sim-fault %s' % item['id']
    if k == 'probe':
        form = item.get('form', '%')
        if form == 'run':
            return 'run %s%% %s%s' % ('-ignore-exit-code ' if item.get('ignore') else '', item['id'], _args(item))
        if form == '$':
            return '$ %s%s' % (item['id'], _args(item))
        if form == 'file':
            # the program fills a file: a program that fails makes the instruction fail (a hard error in every phase)
            return 'file out-of-%s.txt = -stdout-from %% %s%s' % (item['id'], item['id'], _args(item))
        return '%% %s%s' % (item['id'], _args(item))
    if k == 'real':
        return item['text']
    raise KeyError(k)


def _args(item):
    a = item.get('args')
    return (' ' + a) if a else ''


def render_case(case: dict, status=None) -> str:
    """case: {'conf': [items], 'setup': [...], 'act': {'lines': [...]}|None, 'before-assert': ..., ...}
    The text of the case file itself (see render_files for cases whose layout uses included files)."""
    return render_files(case, status)['t.case']


def render_files(case: dict, status=None) -> dict:
    """{file name: text}: 't.case' and the files it includes.
    case['layout'] (optional) = {'order': [phases]      the order in which the sections are first declared in the file,
                                 'split': [phases]      these are declared twice: the second half of their contents comes
                                                        under a second header at the end of the file,
                                 'include': {phase: [at, n]}  n elements from index `at` stand in an included file,
                                 'act_first_without_header': bool  the act contents stand first, before any header}
    None of this changes what is executed, or in which order: phases run in their fixed order, the instructions of a
    phase in file order (declarations merged, included lines spliced in at the place of the directive)."""
    layout = case.get('layout') or {}
    order = []
    for ph in list(layout.get('order') or case.get('order') or []) + PHASES:  # (robust against shrunk layouts)
        if ph in PHASES and ph not in order:
            order.append(ph)
    split = [ph for ph in (layout.get('split') or [])]
    include = layout.get('include') or {}
    files = {}
    heads, tails = [], []
    # "before any header, the act phase": the act contents may stand first in the file without a header
    headerless_act = bool(layout.get('act_first_without_header')) and case.get('act') is not None and \
        bool(case['act'].get('lines'))
    if headerless_act:
        heads.extend(case['act'].get('lines', []))
    for ph in order:
        if ph == 'act':
            act = case.get('act')
            if act is not None and not headerless_act:
                heads.append('[act]')
                heads.extend(act.get('lines', []))
            continue
        chunks = []
        if ph == 'conf' and status is not None:
            chunks.append('status = %s' % status)
        rendered = [render_item(i) for i in (case.get(ph) or [])]
        if ph in include and rendered:
            at, n = (list(include[ph]) + [0, 1])[:2]
            at = min(max(0, at), len(rendered) - 1)
            n = max(1, n)
            name = 'inc-%s.xly' % ph
            files[name] = '\n'.join(rendered[at:at + n]) + '\n'
            rendered = rendered[:at] + ['including ' + name] + rendered[at + n:]
        chunks.extend(rendered)
        if ph in (layout.get('first_include') or []) and chunks:
            # the very first element of the section is an `including` directive (directly after the header), and further
            # elements of the section follow it
            name, body = first_include_file(ph)
            files[name] = body
            chunks = ['including ' + name] + chunks
        if ph in split and len(chunks) >= 2:
            k = len(chunks) // 2
            first, second = chunks[:k], chunks[k:]
        else:
            first, second = chunks, []
        if first or case.get('empty_headers'):
            heads.append('[%s]' % ph)
            heads.extend(first)
        if second:
            tails.append('[%s]' % ph)
            tails.extend(second)
    files['t.case'] = '\n'.join(heads + tails) + '\n'
    return files


def first_include_file(ph: str):
    """(name, contents) of the harmless file a section may start by including: in [conf] a status that the case's own
    `status = ...` (which follows the directive) replaces, elsewhere the definition of a symbol nobody uses."""
    if ph == 'conf':
        # (SKIP, of all: a status that is set again is simply the last one set - nothing is decided before [conf] is over)
        return 'pre-conf.xly', 'status = SKIP\n'
    return 'pre-%s.xly' % ph, 'def string PRE_%s = "defined in a file that the section starts by including"\n' \
        % ph.replace('-', '_').upper()


def write_case(world, case: dict, status=None, tail: str = '') -> str:
    """Write the case file (home/t.case) and the files it includes; returns the text of the case file."""
    files = render_files(case, status)
    for name, text in files.items():
        world.write('home/' + name, text + (tail if name == 't.case' else ''))
    return files['t.case'] + tail


def random_layout(g) -> dict:
    """A layout for render_files, from the stream g."""
    layout = {}
    if g.random() < 0.4:
        order = list(PHASES)
        g.shuffle(order)
        layout['order'] = order
    sp = [ph for ph in INSTR_PHASES if g.random() < 0.15]
    if sp:
        layout['split'] = sp
    inc = {ph: [g.randint(0, 3), g.randint(1, 2)] for ph in INSTR_PHASES[1:] if g.random() < 0.15}
    if inc:
        layout['include'] = inc
    if g.random() < 0.2:
        layout['act_first_without_header'] = True
    fi = [ph for ph in INSTR_PHASES if g.random() < 0.12]
    if fi:
        layout['first_include'] = fi
    return layout


def line_of_item(case: dict, status, ident: str):
    """1-based line number of the instruction with the given id, in the file that holds it."""
    loc = location_of_item(case, status, ident)
    return loc[1] if loc else None


def location_of_item(case: dict, status, ident: str):
    """(file name, 1-based line number) of the instruction with the given id, or None."""
    for name, text in sorted(render_files(case, status).items()):
        n = _line_of_item_in(text, case, ident)
        if n is not None:
            return name, n
    return None


def _line_of_item_in(text: str, case: dict, ident: str):
    for ph in INSTR_PHASES:
        for it in case.get(ph) or []:
            if it.get('id') == ident and it['k'] == 'real':
                for n, line in enumerate(text.split('\n'), 1):
                    if line == it['text']:
                        return n
                return None
    for n, line in enumerate(text.split('\n'), 1):
        parts = line.split()
        if len(parts) >= 2 and parts[-1] == ident and parts[0] in ('sim-fault', '%', '$', 'run', 'file'):
            return n
        if len(parts) >= 2 and parts[0] in ('%', '$') and parts[1] == ident:
            return n
        if len(parts) >= 3 and parts[0] == 'run' and ident in parts[1:4]:
            return n
    return None
