"""Shared generators/renderers: abstract case model -> test-case text."""

PHASES = ['conf', 'setup', 'act', 'before-assert', 'assert', 'cleanup']
INSTR_PHASES = ['conf', 'setup', 'before-assert', 'assert', 'cleanup']
PREFIX = {'conf': 'c', 'setup': 's', 'before-assert': 'b', 'assert': 'a', 'cleanup': 'l'}


def render_item(item) -> str:
    k = item['k']
    if k == 'fault':
        return 'sim-fault %s' % item['id']
    if k == 'probe':
        form = item.get('form', '%')
        if form == 'run':
            return 'run %s%% %s%s' % ('-ignore-exit-code ' if item.get('ignore') else '', item['id'], _args(item))
        if form == '$':
            return '$ %s%s' % (item['id'], _args(item))
        return '%% %s%s' % (item['id'], _args(item))
    if k == 'real':
        return item['text']
    raise KeyError(k)


def _args(item):
    a = item.get('args')
    return (' ' + a) if a else ''


def render_case(case: dict, status=None) -> str:
    """case: {'conf': [items], 'setup': [...], 'act': {'lines': [...]}|None, 'before-assert': ..., ...}
    Phases are written in the canonical order; `order` may give another order of sections."""
    out = []
    order = case.get('order') or PHASES
    for ph in order:
        if ph == 'act':
            act = case.get('act')
            if act is not None:
                out.append('[act]')
                out.extend(act.get('lines', []))
            continue
        items = list(case.get(ph) or [])
        lines = []
        if ph == 'conf' and status is not None:
            lines.append('status = %s' % status)
        lines.extend(render_item(i) for i in items)
        if lines or case.get('empty_headers'):
            out.append('[%s]' % ph)
            out.extend(lines)
    return '\n'.join(out) + '\n'


def line_of_item(case: dict, status, ident: str):
    """1-based line number of the instruction with the given id in the rendered text."""
    text = render_case(case, status)
    for ph in INSTR_PHASES:
        for it in case.get(ph) or []:
            if it.get('id') == ident and it['k'] == 'real':
                for n, line in enumerate(text.split('\n'), 1):
                    if line == it['text']:
                        return n
    for n, line in enumerate(text.split('\n'), 1):
        parts = line.split()
        if len(parts) >= 2 and parts[-1] == ident and parts[0] in ('sim-fault', '%', '$', 'run'):
            return n
        if len(parts) >= 2 and parts[0] in ('%', '$') and parts[1] == ident:
            return n
        if len(parts) >= 3 and parts[0] == 'run' and ident in parts[1:4]:
            return n
    return None
