"""Reference model of the phased execution protocol (C01; reused by C04, C19 for 'what runs after a failure').

Knows nothing about the executor's code.  Input: the abstract case (lists of items per phase), the status,
the mode, and the set of *armed* faults.  Output, given the first fault that fired: the expected sequence of
effectful events, the expected cleanup events with the PreviousPhase each is told, and the set of acceptable
final statuses.
"""

INSTR_PHASES = ['conf', 'setup', 'before-assert', 'assert', 'cleanup']

# rank of step classes in the protocol's partial order
RANK = {
    ('conf', 'main'): 0,
    ('act', 'parse'): 1,
    'symbols': 2,
    'pre_sds': 3,
    # --- sandbox is created here ---
    ('setup', 'main'): 4,
    'post_setup': 5,
    ('act', 'exe_input'): 5.5,
    ('act', 'prepare'): 6,
    ('act', 'execute'): 7,
    ('before-assert', 'main'): 8,
    ('assert', 'main'): 9,
    ('cleanup', 'main'): 10,
}
ORDERED_RANKS = {0, 4, 8, 9, 10}

CLASS_OF_KIND = {
    'svh_validation': 'VALIDATION_ERROR', 'undefined_symbol': 'VALIDATION_ERROR',
    'svh_hard': 'HARD_ERROR', 'sh_hard': 'HARD_ERROR', 'pfh_hard': 'HARD_ERROR', 'eh_hard': 'HARD_ERROR',
    'raise_hard': 'HARD_ERROR', 'raise_exc': 'INTERNAL_ERROR', 'pfh_fail': 'FAIL',
    'parse_exception': 'SYNTAX_ERROR', 'exe_input_report': 'HARD_ERROR',
    'exit_nonzero': None,  # depends on the phase: FAIL in assert, HARD_ERROR elsewhere
    'spawn_error': 'HARD_ERROR',
    'real_hard_error': 'HARD_ERROR',  # a real instruction that fails in its main step (cd to a missing directory)
    'timeout_kill': 'HARD_ERROR',  # a timeout is an error, never a FAIL
}

PREV_OF_RANK = {4: 'SETUP', 5: 'SETUP', 5.5: 'SETUP', 6: 'SETUP', 7: 'ACT', 8: 'BEFORE_ASSERT', 9: 'ASSERT'}


def index_case(case):
    """id -> (phase, index)"""
    pos = {}
    for ph in INSTR_PHASES:
        for i, item in enumerate(case.get(ph) or []):
            if 'id' in item:
                pos[item['id']] = (ph, i)
    return pos


def rank_of(phase, step):
    if step in ('symbols', 'pre_sds', 'post_setup'):
        return RANK[step]
    return RANK[(phase, step)]


def locate(case, fault):
    """(rank, phase, index) of a fault {'id','step',...}"""
    if fault['id'] == 'act' or fault['id'] == 'atc':
        return rank_of('act', fault['step']), 'act', 0
    ph, i = index_case(case)[fault['id']]
    return rank_of(ph, fault['step']), ph, i


def precedes(a, b):
    """a, b: (rank, phase, index).  True iff the protocol fixes that a's step comes strictly before b's."""
    if a[0] != b[0]:
        return a[0] < b[0]
    if a[1] == b[1]:
        return a[2] < b[2]
    return False


def class_of(fault, phase):
    k = fault['kind']
    if k == 'exit_nonzero':
        return 'FAIL' if phase == 'assert' else 'HARD_ERROR'
    return CLASS_OF_KIND[k]


def on_success_path(loc, status, act_mode, case):
    """Is the step at loc executed when nothing fails?"""
    rank, phase, idx = loc
    if status == 'SKIP':
        return rank == 0
    if act_mode and rank in (8, 9):
        return False
    if act_mode and rank in (2, 3, 5) and phase in ('before-assert', 'assert'):
        return None  # the statement does not say whether skipped phases are validated: not judged
    return True


def main_event_of(item):
    """the effectful event an item produces when its main step runs: ('trace'|'spawn', id) or None"""
    if item['k'] == 'fault':
        return ('main', item['id'])
    if item['k'] == 'probe':
        return ('spawn', item['id'])
    return None


def expected_effects(case, status, act_mode, primary_loc, has_atc_process=True, primary_is_spawn_error=False):
    """Expected sequence of effectful events before cleanup, and whether a sandbox exists.
    primary_loc: location of the first fired non-cleanup-main fault, or None."""
    seq = []
    stop = primary_loc

    def mains(phase, rank):
        items = case.get(phase) or []
        for i, item in enumerate(items):
            e = main_event_of(item)
            if e is not None:
                seq.append(e)
            if stop is not None and stop[0] == rank and stop[2] == i:
                return True
        return False

    if mains('conf', 0):
        return seq, False
    if stop is not None and stop[0] <= 3:
        return seq, False
    if status == 'SKIP':
        return seq, False
    if mains('setup', 4):
        return seq, True
    if stop is not None and stop[0] in (5, 5.5):
        return seq, True
    seq.append(('prepare', 'act'))
    if stop is not None and stop[0] == 6:
        return seq, True
    seq.append(('execute', 'act'))
    if stop is not None and stop[0] == 7:
        if primary_is_spawn_error:
            seq.append(('spawn', 'atc'))
        return seq, True
    if has_atc_process:
        seq.append(('spawn', 'atc'))
    if act_mode:
        return seq, True
    if mains('before-assert', 8):
        return seq, True
    mains('assert', 9)
    return seq, True


def expected_cleanup(case, sandbox, failing_cleanup_ids):
    """cleanup main events in file order, up to and including the first failing one"""
    out = []
    if not sandbox:
        return out
    for item in case.get('cleanup') or []:
        e = main_event_of(item)
        if e is not None:
            out.append(e)
        if item.get('id') in failing_cleanup_ids:
            break
    return out


def previous_phase(primary_loc, act_mode):
    if primary_loc is None:
        return 'ACT' if act_mode else 'ASSERT'
    return PREV_OF_RANK[primary_loc[0]]


def acceptable_statuses(status, primary_cls, cleanup_cls):
    """Set of acceptable final statuses."""
    if primary_cls is None and cleanup_cls is None:
        return {'SKIP': {'SKIPPED'}, 'FAIL': {'XPASS'}, 'PASS': {'PASS'}}[status]
    out = set()
    for c in (primary_cls, cleanup_cls):
        if c is None:
            continue
        if c == 'FAIL' and status == 'FAIL':
            c = 'XFAIL'
        out.add(c)
    return out


def executed_items(case, status, act_mode, primary_loc, failing_cleanup_ids=()):
    """Items (of any kind, in execution order) whose main step runs, as (phase, index, item); 'act' appears as
    (('act', 0, None)) when act execute is reached.  Includes the item at which execution stops."""
    out = []
    stop = primary_loc

    def mains(phase, rank):
        for i, item in enumerate(case.get(phase) or []):
            out.append((phase, i, item))
            if stop is not None and stop[0] == rank and stop[2] == i:
                return True
        return False

    def cleanup():
        for i, item in enumerate(case.get('cleanup') or []):
            out.append(('cleanup', i, item))
            if item.get('id') in failing_cleanup_ids:
                break

    if mains('conf', 0):
        return out
    if (stop is not None and stop[0] <= 3) or status == 'SKIP':
        return out
    if mains('setup', 4) or (stop is not None and stop[0] in (5, 5.5, 6)):
        cleanup()
        return out
    out.append(('act', 0, None))
    if (stop is not None and stop[0] == 7) or act_mode:
        cleanup()
        return out
    if mains('before-assert', 8):
        cleanup()
        return out
    mains('assert', 9)
    cleanup()
    return out
