"""Reference state machine for cd / env (act, non-act) / timeout (C11; reused by C19 and C17).

state = (cwd relative to the sandbox root, act set, non-act set, timeout).  Written from the property statement
and `exactly help setup env`, not from the implementation:
 * both sets start as the environment Exactly was started with;
 * `env NAME = VALUE` without phase spec changes both sets (the act set only while in [setup], i.e. before the
   action to check has run), `-of act` only the act set (a no-op outside [setup]), `-of !act` only the other;
 * ${name} in VALUE is expanded against the set being changed; unknown names give the empty string;
 * `timeout`, `cd` take effect for every later instruction and phase.
"""
import posixpath
import re

_REF = re.compile(r'\$\{([a-zA-Z0-9_]+)\}')
DEFAULT_TIMEOUT = 60


def expand(value: str, env: dict) -> str:
    return _REF.sub(lambda m: env.get(m.group(1), ''), value)


class Settings:
    def __init__(self, base_env: dict):
        self.act = dict(base_env)
        self.non = dict(base_env)
        self.timeout = DEFAULT_TIMEOUT
        self.cwd = 'act'
        self.copied = {}  # directory -> names of the files that `copy SOURCE` (no destination) has put there

    def copy(self):
        s = Settings({})
        s.act, s.non, s.timeout, s.cwd = dict(self.act), dict(self.non), self.timeout, self.cwd
        s.copied = {k: set(v) for k, v in self.copied.items()}
        return s

    def apply(self, fx, phase):
        k = fx[0]
        if k == 'set':
            spec, name, val = fx[1], fx[2], fx[3]
            if spec in (None, 'act') and phase == 'setup':
                self.act[name] = expand(val, self.act)
            if spec in (None, '!act'):
                self.non[name] = expand(val, self.non)
        elif k == 'unset':
            _, spec, name = fx
            if spec in (None, 'act') and phase == 'setup':
                self.act.pop(name, None)
            if spec in (None, '!act'):
                self.non.pop(name, None)
        elif k == 'timeout':
            self.timeout = fx[1]
        elif k == 'cd':
            self.cwd = posixpath.normpath(fx[1] if not fx[1].startswith('./') else posixpath.join(self.cwd, fx[1][2:]))
        elif k == 'copy':
            # `copy SOURCE` without a destination: into the current directory
            self.copied.setdefault(self.cwd, set()).add(fx[1])
        elif k in ('mk', 'chmod', 'symlink', 'odd', 'rmcwd', 'rmcwd_final', 'env', 'unenv', 'noop'):
            pass
        else:
            raise KeyError(k)

    def view(self, which='non'):
        return {'cwd': self.cwd, 'env': dict(self.act if which == 'act' else self.non), 'timeout': self.timeout,
                'here': sorted(self.copied.get(self.cwd, ()))}


def render(fx) -> str:
    k = fx[0]

    def sp(s):
        return '' if s is None else '-of %s ' % s

    if k == 'set':
        if len(fx) > 4 and fx[4]:
            return 'env %s%s = -stdout-from %% %s' % (sp(fx[1]), fx[2], fx[4])
        return 'env %s%s = "%s"' % (sp(fx[1]), fx[2], fx[3])
    if k == 'unset':
        return 'env %sunset %s' % (sp(fx[1]), fx[2])
    if k == 'timeout':
        return 'timeout = %s' % ('none' if fx[1] is None else fx[1])
    if k == 'cd':
        return 'cd %s' % fx[2]
    if k == 'copy':
        return 'copy %s' % fx[1]
    raise KeyError(k)
