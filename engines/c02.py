"""C02 — Outcome table: status x assert outcome -> verdict, exit code and identifier, per output mode.

Workload (CLI level): a case built from one *ending* (pass, failing assertion, hard/internal error per phase,
validation error, syntax error, act-phase syntax error, missing/unreadable file, failing preprocessor, bad suite
file, invalid usage, sandbox cannot be created) x status x output mode, ATC exit code over 0..255.
What ends an execution is the behaviour of things outside Exactly (children's exit codes, spawn failures,
unreadable files) or an injected step fault.  Oracle: the documented table, hard-coded here.
"""
import os

from sim import kernel, world as world_mod, patches, host, casegen

PROPERTY = 'C02'
LEVEL = 'fault_enumeration'
EXHAUSTIVE_SWEEP = True
RULE_TEXT = ('runs = deterministic sweep over endings (about 60: every way of ending x the phases/steps it can occur '
             'in) x status {PASS, FAIL, SKIP} x output mode {normal, --keep, --act}, and ATC exit codes 0..255 x 3 modes '
             'x {matching, non-matching} exit-code assertion; then seeded random runs (ending, position, status, mode, '
             'ATC output texts, companion instructions, buffer knob). Non-trivial = every run that reached the CLI '
             'with a classified ending; distinct = (ending id, phase, status, mode, verdict, ATC exit code class).')
REACH_PROBES = ['verdict_PASS', 'verdict_FAIL', 'verdict_XFAIL', 'verdict_XPASS', 'verdict_SKIPPED',
                'verdict_SYNTAX_ERROR', 'verdict_FILE_ACCESS_ERROR', 'verdict_PRE_PROCESS_ERROR',
                'verdict_VALIDATION_ERROR', 'verdict_HARD_ERROR', 'verdict_INTERNAL_ERROR', 'verdict_USAGE',
                'mode_normal', 'mode_keep', 'mode_act', 'act_passthrough', 'fsfault_fired', 'resolver_fault_fired',
                'preprocessor_ran', 'suite_option', 'sandbox_removal_disturbed_by_a_writing_process']

CODE = {'PASS': 0, 'SKIPPED': 0, 'FAIL': 32, 'XFAIL': 33, 'XPASS': 33, 'SYNTAX_ERROR': 65, 'FILE_ACCESS_ERROR': 65,
        'PRE_PROCESS_ERROR': 65, 'VALIDATION_ERROR': 65, 'HARD_ERROR': 128, 'INTERNAL_ERROR': 129}
IDENTS = set(CODE)
MODES = ['normal', 'keep', 'act']
INSTR_PHASES = ['setup', 'before-assert', 'assert', 'cleanup']

# ending catalogue: id -> (stage, outcome, phases it can be placed in)
#   stage: 'usage' | 'parse' (before/at parsing: decided whatever the status) | 'conf' | 'exec'
#   outcome: 'pass' | 'fail' | an error identifier


# (the byte 0xE9 alone is not UTF-8; SimPopen writes str as UTF-8 with surrogateescape)
STDERR_KINDS = {None: 'boom\n', 'empty': '', 'undecodable': 'bad \udce9 byte\n'}


def _endings():
    E = []

    def add(eid, stage, outcome, phases=(None,), **kw):
        for ph in phases:
            E.append(dict(kw, id=eid, stage=stage, outcome=outcome, phase=ph))

    add('pass', 'exec', 'pass')
    add('assert_exit_code_mismatch', 'exec', 'fail', ['assert'])
    add('assert_run_nonzero', 'exec', 'fail', ['assert'])
    add('assert_stub_fail', 'exec', 'fail', ['assert'])
    add('run_nonzero', 'exec', 'HARD_ERROR', ['setup', 'before-assert', 'cleanup'])
    # what the failing program wrote on stderr (nothing at all; bytes that are not UTF-8) is only quoted in the
    # message: it changes nothing about the verdict
    add('assert_exit_code_mismatch', 'exec', 'fail', ['assert'], stderr='undecodable')
    add('assert_run_nonzero', 'exec', 'fail', ['assert'], stderr='undecodable')
    add('assert_run_nonzero', 'exec', 'fail', ['assert'], stderr='empty')
    add('run_nonzero', 'exec', 'HARD_ERROR', ['setup', 'before-assert', 'cleanup'], stderr='undecodable')
    add('run_nonzero', 'exec', 'HARD_ERROR', ['setup', 'before-assert', 'cleanup'], stderr='empty')
    # double endings: a failing assertion, then an error in [cleanup]: "anything that interrupts execution is reported
    # as the documented error verdict" - a failed assertion does not turn a later error into a failed test
    add('fail_then_cleanup_hard', 'exec', 'HARD_ERROR', ['cleanup'], how='exit_code_mismatch')
    add('fail_then_cleanup_hard', 'exec', 'HARD_ERROR', ['cleanup'], how='run_nonzero')
    add('fail_then_cleanup_hard', 'exec', 'HARD_ERROR', ['cleanup'], how='stub_fail')
    add('fail_then_cleanup_exception', 'exec', 'INTERNAL_ERROR', ['cleanup'], how='exit_code_mismatch')
    add('fail_then_cleanup_exception', 'exec', 'INTERNAL_ERROR', ['cleanup'], how='stub_fail')
    # two failing instructions in ONE phase: the first one interrupts the execution, and it is the one that is reported
    add('two_failures_in_one_phase', 'exec', 'HARD_ERROR', ['assert'], how='hard_then_fail')
    add('two_failures_in_one_phase', 'exec', 'fail', ['assert'], how='fail_then_hard')
    add('two_failures_in_one_phase', 'exec', 'HARD_ERROR', ['setup', 'before-assert', 'cleanup'], how='hard_then_exception')
    add('two_failures_in_one_phase', 'exec', 'INTERNAL_ERROR', ['setup', 'before-assert', 'assert'], how='exception_then_hard')
    # the instructions that are no assertions (cd, dir, file, copy) but may be written in [assert]: one that cannot do its
    # job is an error there as everywhere else - "reported as an error, and not as a failed test"
    add('helper_instruction_fails', 'exec', 'HARD_ERROR', ['setup', 'before-assert', 'assert', 'cleanup'])
    # an assertion on file contents / output that cannot be evaluated (the file is not there, the program of `-from` or of a
    # `run` transformer cannot be started or fails): an error, not a failed test
    add('assertion_cannot_be_evaluated', 'exec', 'HARD_ERROR', ['assert'])
    add('stub_hard_returned', 'exec', 'HARD_ERROR', INSTR_PHASES)
    add('stub_hard_raised', 'exec', 'HARD_ERROR', INSTR_PHASES)
    add('atc_cannot_start', 'exec', 'HARD_ERROR', ['act'])
    # [act] names a file in the sandbox that is not there after [setup]: found by the actor's validation after setup
    add('act_references_missing_sandbox_file', 'exec', 'HARD_ERROR', ['act'])
    add('act_stub_hard', 'exec', 'HARD_ERROR', ['act'], step='execute')
    add('act_stub_hard', 'exec', 'HARD_ERROR', ['act'], step='prepare')
    add('stub_exception', 'exec', 'INTERNAL_ERROR', INSTR_PHASES)
    add('act_stub_exception', 'exec', 'INTERNAL_ERROR', ['act'], step='execute')
    add('stub_exception_in_validation', 'exec', 'INTERNAL_ERROR', ['setup', 'cleanup'], step='pre_sds')
    add('undefined_symbol', 'exec', 'VALIDATION_ERROR', INSTR_PHASES)
    # ... in the [conf] instruction that sets the actor (the interpreter of the file / source actor is a program like any other)
    add('undefined_symbol_in_actor', 'exec', 'VALIDATION_ERROR', how='file')
    add('undefined_symbol_in_actor', 'exec', 'VALIDATION_ERROR', how='source')
    add('undefined_symbol_in_actor', 'exec', 'VALIDATION_ERROR', how='file_via_program_symbol')
    add('missing_home_file', 'exec', 'VALIDATION_ERROR', INSTR_PHASES)
    add('bad_integer', 'exec', 'VALIDATION_ERROR', ['assert'])
    add('stub_validation', 'exec', 'VALIDATION_ERROR', INSTR_PHASES, step='pre_sds')
    add('stub_validation', 'exec', 'VALIDATION_ERROR', ['setup', 'before-assert', 'assert'], step='post_setup')
    add('stub_validation', 'exec', 'VALIDATION_ERROR', INSTR_PHASES, step='symbols')
    add('act_stub_validation', 'exec', 'VALIDATION_ERROR', ['act'], step='pre_sds')
    add('act_syntax', 'exec', 'SYNTAX_ERROR', ['act'])
    add('conf_stub_validation', 'conf', 'VALIDATION_ERROR', ['conf'])
    add('conf_stub_hard', 'conf', 'HARD_ERROR', ['conf'])
    add('conf_stub_exception', 'conf', 'INTERNAL_ERROR', ['conf'])
    add('unknown_instruction', 'parse', 'SYNTAX_ERROR', ['conf'] + INSTR_PHASES)
    add('broken_here_doc', 'parse', 'SYNTAX_ERROR', ['setup', 'assert'])
    add('superfluous_argument', 'parse', 'SYNTAX_ERROR', INSTR_PHASES)
    add('unknown_section', 'parse', 'SYNTAX_ERROR')
    add('missing_include', 'parse', 'FILE_ACCESS_ERROR', ['setup', 'cleanup'])
    add('unreadable_include', 'parse', 'FILE_ACCESS_ERROR', ['setup'])
    add('unreadable_case', 'parse', 'FILE_ACCESS_ERROR')
    # a file whose bytes are not text in the encoding in use: WHICH error verdict that is is not stated (judged: one of
    # the error verdicts, reported like any other - identifier, exit code, no escaping exception)
    add('undecodable_case_file', 'parse', 'SOME_ERROR')
    add('undecodable_included_file', 'parse', 'SOME_ERROR', ['setup', 'cleanup'])
    # other ways in which an included file cannot be read
    add('include_is_a_directory', 'parse', 'FILE_ACCESS_ERROR', ['setup'])
    add('include_path_through_a_regular_file', 'parse', 'FILE_ACCESS_ERROR', ['setup'])
    add('preprocessor_fails', 'parse', 'PRE_PROCESS_ERROR')
    add('preprocessor_killed_by_signal', 'parse', 'PRE_PROCESS_ERROR')
    add('preprocessor_cannot_start', 'parse', 'PRE_PROCESS_ERROR')
    add('preprocessor_garbage', 'parse', 'SYNTAX_ERROR')
    add('preprocessor_ok', 'exec', 'pass')
    add('suite_option_ok', 'exec', 'pass')
    add('suite_syntax_error', 'parse', 'SYNTAX_ERROR', how='option')
    add('suite_syntax_error', 'parse', 'SYNTAX_ERROR', how='beside')
    add('suite_missing_include', 'parse', 'FILE_ACCESS_ERROR', how='option')
    add('suite_missing_include', 'parse', 'FILE_ACCESS_ERROR', how='beside')
    add('sandbox_cannot_be_created', 'exec', 'INTERNAL_ERROR')
    add('usage_unknown_option', 'usage', 'USAGE')
    add('usage_missing_file_argument', 'usage', 'USAGE')
    add('usage_nonexistent_file', 'usage', 'USAGE')
    add('usage_nonexistent_suite', 'usage', 'USAGE')
    add('usage_superfluous_argument', 'usage', 'USAGE')
    add('usage_option_without_its_argument', 'usage', 'USAGE')
    add('usage_option_after_the_file', 'usage', 'USAGE')
    return E


ENDINGS = _endings()
EXCS = ['RuntimeError', 'ValueError', 'OSError', 'KeyError', 'AssertionError', 'RecursionError']


def total_runs(tier):
    return len(sweep_specs()) + (600 if tier == 'quick' else 300000)


_SW = {}


def sweep_specs():
    if 's' not in _SW:
        specs = []
        for e in range(len(ENDINGS)):
            for status in ('PASS', 'FAIL', 'SKIP'):
                for mode in MODES:
                    specs.append(('ending', e, status, mode, None))
        for code in range(256):
            for mode in MODES:
                specs.append(('code', code, 'PASS' if code % 3 else 'FAIL', mode, code % 2 == 0))
        _SW['s'] = specs
    return _SW['s']


def make_plan(i, master, tier):
    seed = kernel.run_seed(master, PROPERTY, i)
    g = kernel.stream(seed, 'gen')
    specs = sweep_specs()
    if i < len(specs):
        kind, x, status, mode, match = specs[i]
        if kind == 'ending':
            return build(seed, tier, dict(ENDINGS[x]), status, mode, g, sweep=True)
        ending = dict(ENDINGS[0]) if match else dict(next(e for e in ENDINGS if e['id'] == 'assert_exit_code_mismatch'))
        return build(seed, tier, ending, status, mode, g, atc_exit=x, sweep=True)
    ending = dict(g.choice(ENDINGS))
    status = g.choices(['PASS', 'FAIL', 'SKIP'], [50, 35, 15])[0]
    mode = g.choice(MODES)
    return build(seed, tier, ending, status, mode, g)


def build(seed, tier, ending, status, mode, g, atc_exit=None, sweep=False):
    eid, ph = ending['id'], ending['phase']
    atc_exit = atc_exit if atc_exit is not None else g.choice([0, 0, 1, 2, 7, 32, 33, 65, 128, 129, 255])
    atc = {'exit': atc_exit,
           'stdout': g.choice(['', 'out\n', 'two\nlines\n', 'no final newline', 'unicode é\n']),
           'stderr': g.choice(['', 'err\n', 'warning: x\nmore\n'])}
    procs = {'atc': atc}
    faults = []
    fsfaults = []
    files = {}
    argv_extra = []
    case = {'conf': [], 'setup': [], 'before-assert': [], 'assert': [], 'cleanup': [], 'act': {'lines': ['% atc']}}
    n = [0]

    def companion(phase):
        n[0] += 1
        r = g.random()
        if phase == 'conf':
            return None
        if r < 0.35:
            ident = '%sk%d' % (casegen.PREFIX[phase], n[0])
            procs[ident] = {'exit': 0, 'stdout': g.choice(['', 'x\n'])}
            return {'k': 'probe', 'id': ident, 'form': g.choice(['%', 'run', '$'])}
        if r < 0.6:
            return {'k': 'fault', 'id': '%sq%d' % (casegen.PREFIX[phase], n[0])}
        if r < 0.72:
            # a program whose output is used as a text: what it writes on the OTHER channel (and its exit code) is
            # nobody's business - least of all that of Exactly's own stdout / stderr
            procs['chatty'] = {'exit': g.choice([0, 1, 3]), 'stdout': 'chatty: written on stdout\n',
                               'stderr': 'chatty: written on stderr\n'}
            return {'k': 'real', 'text': 'file -rel-tmp chatty%d.txt = -%s-from -ignore-exit-code %% chatty'
                                         % (n[0], g.choice(['stderr', 'stdout', 'stderr']))}
        return {'k': 'real', 'text': g.choice(['def string S%d = s', 'env E%d = v', 'file -rel-tmp f%d.txt = "x"',
                                               'dir -rel-act d%d']) % n[0]}

    for phase in INSTR_PHASES:
        for _ in range(g.choice([0, 0, 1, 2])):
            c = companion(phase)
            if c:
                case[phase].append(c)
    # the assertion that makes a complete execution pass
    case['assert'].append({'k': 'real', 'text': 'exit-code == %d' % atc_exit})

    def insert(phase, item):
        items = case[phase]
        item['e'] = 1  # produced by the ending: the shrinker must keep it
        items.insert(g.randint(0, len(items)), item)

    def stub(phase, step, kind, **kw):
        ident = 'act' if phase == 'act' else '%sx' % casegen.PREFIX[phase]
        if phase != 'act':
            insert(phase, {'k': 'fault', 'id': ident})
        faults.append(dict(kw, id=ident, step=step, kind=kind))

    if eid == 'pass':
        pass
    elif eid == 'assert_exit_code_mismatch':
        insert('assert', {'k': 'real', 'text': 'exit-code == %d' % ((atc_exit + g.choice([1, 2, 100])) % 256)})
        if ending.get('stderr'):
            procs['atc'] = dict(procs['atc'], stderr=STDERR_KINDS[ending['stderr']])
    elif eid == 'assert_run_nonzero':
        procs['ax'] = {'exit': g.choice([1, 2, 255]), 'stderr': STDERR_KINDS[ending.get('stderr')]}
        insert('assert', {'k': 'probe', 'id': 'ax', 'form': g.choice(['%', 'run', '$'])})
    elif eid == 'assert_stub_fail':
        stub('assert', 'main', 'pfh_fail')
    elif eid == 'assertion_cannot_be_evaluated':
        # (`stdout|stderr -from PROGRAM` looks at the output whatever the exit code: a program that merely exits non-zero
        # is no error there - a variant that said so was a false alarm of this catalogue, found by the thorough tier)
        v = g.choice(['contents no-such-file.txt : is-empty', 'stdout -from % nostart\n  is-empty',
                      'stdout -transformed-by run % failing-tr\n  is-empty', 'exit-code -from % nostart\n  == 0',
                      'dir-contents no-such-dir : is-empty'])
        procs['nostart'] = {'spawn_error': 'ENOENT'}
        procs['failing-tr'] = {'exit': 2, 'stderr': 'tr failed\n'}
        insert('assert', {'k': 'real', 'e': 1, 'text': v})
    elif eid == 'helper_instruction_fails':
        v = g.choice(['cd no-such-dir', 'file dup.txt = "b"', 'dir dup.txt', 'dir dup.txt/sub'])
        if 'dup.txt' in v:
            case['setup'].insert(0, {'k': 'real', 'e': 1, 'text': 'file dup.txt = "a"'})  # (part of the ending)
        insert(ph, {'k': 'real', 'e': 1, 'text': v})
    elif eid == 'run_nonzero':
        ident = casegen.PREFIX[ph] + 'x'
        procs[ident] = {'exit': g.choice([1, 2, 255]), 'stderr': STDERR_KINDS[ending.get('stderr')]}
        insert(ph, {'k': 'probe', 'id': ident, 'form': g.choice(['%', 'run', '$'])})
    elif eid in ('fail_then_cleanup_hard', 'fail_then_cleanup_exception'):
        how = ending['how']
        if how == 'exit_code_mismatch':
            insert('assert', {'k': 'real', 'text': 'exit-code == %d' % ((atc_exit + g.choice([1, 2, 100])) % 256)})
        elif how == 'run_nonzero':
            procs['ax'] = {'exit': g.choice([1, 2, 255])}
            insert('assert', {'k': 'probe', 'id': 'ax', 'form': g.choice(['%', 'run', '$'])})
        else:
            insert('assert', {'k': 'fault', 'id': 'ax'})
            faults.append({'id': 'ax', 'step': 'main', 'kind': 'pfh_fail'})
        if eid == 'fail_then_cleanup_hard':
            if g.random() < 0.5:
                procs['lx'] = {'exit': g.choice([1, 2, 255]), 'stderr': 'boom\n'}
                insert('cleanup', {'k': 'probe', 'id': 'lx', 'form': g.choice(['%', 'run', '$'])})
            else:
                insert('cleanup', {'k': 'fault', 'id': 'lx'})
                faults.append({'id': 'lx', 'step': 'main', 'kind': g.choice(['sh_hard', 'raise_hard'])})
        else:
            insert('cleanup', {'k': 'fault', 'id': 'lx'})
            faults.append({'id': 'lx', 'step': 'main', 'kind': 'raise_exc', 'exc': g.choice(EXCS)})
    elif eid == 'two_failures_in_one_phase':
        how = ending['how']
        pfx = casegen.PREFIX[ph]

        def failing(kind):
            ident = '%s%s' % (pfx, {'hard': 'h', 'fail': 'f', 'exception': 'e'}[kind])
            if kind == 'fail':
                return {'k': 'real', 'e': 1, 'text': 'exit-code == %d' % ((atc_exit + g.choice([1, 2, 100])) % 256)}
            if kind == 'hard' and g.random() < 0.5:
                procs[ident] = {'spawn_error': g.choice(['ENOENT', 'EACCES'])} if g.random() < 0.5 else \
                    {'exit': g.choice([1, 2, 255]), 'stderr': 'boom\n'}
                if ph == 'assert' and 'exit' in procs[ident]:
                    procs[ident] = {'spawn_error': 'ENOENT'}  # (a non-zero exit is a FAIL in [assert])
                return {'k': 'probe', 'e': 1, 'id': ident, 'form': g.choice(['%', 'run', '$'])}
            faults.append({'id': ident, 'step': 'main', 'exc': g.choice(EXCS),
                           'kind': 'raise_exc' if kind == 'exception' else ('pfh_hard' if ph == 'assert' else
                                                                            g.choice(['sh_hard', 'raise_hard']))})
            return {'k': 'fault', 'e': 1, 'id': ident}

        first, second = {'hard_then_fail': ('hard', 'fail'), 'fail_then_hard': ('fail', 'hard'),
                         'hard_then_exception': ('hard', 'exception'), 'exception_then_hard': ('exception', 'hard')}[how]
        items = case[ph]
        i = g.randint(0, len(items))
        items.insert(i, failing(first))
        items.insert(g.randint(i + 1, len(items)), failing(second))
    elif eid == 'stub_hard_returned':
        stub(ph, 'main', 'pfh_hard' if ph == 'assert' else 'sh_hard')
    elif eid == 'stub_hard_raised':
        stub(ph, 'main', 'raise_hard')
    elif eid == 'atc_cannot_start':
        atc['spawn_error'] = g.choice(['ENOENT', 'EACCES'])
    elif eid == 'act_references_missing_sandbox_file':
        case['act'] = {'lines': [g.choice(['-rel-act no-such-program-in-the-sandbox', '% atc -existing-file -rel-act no-such-file',
                                           '-rel-tmp no-such-program arg'])]}
    elif eid == 'act_stub_hard':
        stub('act', ending['step'], {'execute': 'eh_hard', 'prepare': 'sh_hard'}[ending['step']])
    elif eid == 'stub_exception':
        stub(ph, 'main', 'raise_exc', exc=g.choice(EXCS))
    elif eid == 'act_stub_exception':
        stub('act', 'execute', 'raise_exc', exc=g.choice(EXCS))
    elif eid == 'stub_exception_in_validation':
        stub(ph, 'pre_sds', 'raise_exc', exc=g.choice(EXCS))
    elif eid == 'undefined_symbol':
        insert(ph, {'k': 'real', 'text': g.choice(['def string X = @[UNDEFINED_SYM]@', 'file u.txt = @[UNDEFINED_SYM]@',
                                                  'run @ UNDEFINED_PROGRAM'])})
    elif eid == 'undefined_symbol_in_actor':
        how = ending['how']
        files['home/interpreted.src'] = 'source for the file actor\n'
        if how == 'file':
            case['conf'].append({'k': 'real', 'e': 1, 'text': 'actor = file % atc @[UNDEFINED_SYM]@'})
            case['act'] = {'lines': ['interpreted.src']}
        elif how == 'source':
            case['conf'].append({'k': 'real', 'e': 1, 'text': 'actor = source % atc "x @[UNDEFINED_SYM]@"'})
            case['act'] = {'lines': ['source text']}
        else:
            case['conf'].append({'k': 'real', 'e': 1, 'text': 'actor = file @ UNDEFINED_PROGRAM_SYM'})
            case['act'] = {'lines': ['interpreted.src']}
    elif eid == 'missing_home_file':
        insert(ph, {'k': 'real', 'text': g.choice(['copy no-such-file.txt', 'copy -rel-home no/such/file'])})
    elif eid == 'bad_integer':
        insert('assert', {'k': 'real', 'text': g.choice(['exit-code == notAnInteger', 'exit-code == 1.5'])})
    elif eid == 'stub_validation':
        stub(ph, ending['step'], 'undefined_symbol' if ending['step'] == 'symbols' else 'svh_validation')
    elif eid == 'act_stub_validation':
        stub('act', 'pre_sds', 'svh_validation')
    elif eid == 'act_syntax':
        case['act'] = {'lines': [g.choice(["'unterminated quote", '% atc "unterminated'])]}
    elif eid == 'conf_stub_validation':
        stub('conf', 'main', 'svh_validation')
    elif eid == 'conf_stub_hard':
        stub('conf', 'main', g.choice(['svh_hard', 'raise_hard']))
    elif eid == 'conf_stub_exception':
        stub('conf', 'main', 'raise_exc', exc=g.choice(EXCS))
    elif eid == 'unknown_instruction':
        insert(ph, {'k': 'real', 'text': 'no-such-instruction arg'})
    elif eid == 'broken_here_doc':
        if ph == 'setup':
            case['setup'].append({'k': 'real', 'e': 1, 'text': 'file h.txt = <<EOF\nnever terminated'})
        else:
            case['assert'].append({'k': 'real', 'e': 1, 'text': 'stdout equals <<EOF\nnever terminated'})
    elif eid == 'superfluous_argument':
        insert(ph, {'k': 'real', 'text': 'cd a b'})
    elif eid == 'unknown_section':
        case['tail'] = '[no-such-phase]\nx\n'
    elif eid == 'missing_include':
        insert(ph, {'k': 'real', 'text': 'including no-such-file.xly'})
    elif eid == 'unreadable_include':
        files['home/inc.xly'] = 'def string INC = i\n'
        insert(ph, {'k': 'real', 'text': 'including inc.xly'})
        fsfaults.append({'path_suffix': 'home/inc.xly', 'op': 'open', 'nth': 0, 'errno': g.choice(['EACCES', 'EIO'])})
    elif eid == 'undecodable_case_file':
        case['tail'] = '# caf\udce9 (one byte, 0xE9: not UTF-8)\n'
    elif eid == 'undecodable_included_file':
        files['home/inc.xly'] = 'def string INC = "caf\udce9"\n'
        insert(ph, {'k': 'real', 'text': 'including inc.xly'})
    elif eid == 'include_is_a_directory':
        files['home/incdir/x.txt'] = 'x'
        insert(ph, {'k': 'real', 'text': 'including incdir'})
    elif eid == 'include_path_through_a_regular_file':
        files['home/regular.xly'] = 'def string R = r\n'
        insert(ph, {'k': 'real', 'text': 'including regular.xly/sub.xly'})
    elif eid == 'unreadable_case':
        fsfaults.append({'path_suffix': 'home/t.case', 'op': 'open', 'nth': 0, 'errno': g.choice(['EACCES', 'EIO'])})
    elif eid == 'preprocessor_fails':
        argv_extra = ['--preprocessor', 'pp ppa']
        procs['pp'] = {'exit': g.choice([1, 2, 70]), 'stderr': 'pp failed\n', 'stdout': '[act]\n% atc\n'}
    elif eid == 'preprocessor_killed_by_signal':
        # Popen reports death by signal N as exit status -N: "an exit code other than 0 indicates error"
        argv_extra = ['--preprocessor', 'pp ppa']
        procs['pp'] = {'exit': g.choice([-6, -9, -11, -15]), 'stderr': g.choice(['', 'Aborted\n']),
                       'stdout': g.choice(['[act]\n% atc\n', '@CASE@', ''])}
    elif eid == 'preprocessor_cannot_start':
        argv_extra = ['--preprocessor', 'pp']
        procs['pp'] = {'spawn_error': 'ENOENT'}
    elif eid == 'preprocessor_garbage':
        argv_extra = ['--preprocessor', 'pp']
        procs['pp'] = {'exit': 0, 'stdout': '[setup]\nthis is not an instruction\n'}
    elif eid == 'preprocessor_ok':
        argv_extra = ['--preprocessor', 'pp']
        procs['pp'] = {'exit': 0, 'stdout': '@CASE@'}
    elif eid == 'suite_option_ok':
        files['home/my.suite'] = '[setup]\n% suite-setup\n'
        procs['suite-setup'] = {'exit': 0}
        argv_extra = ['--suite', 'my.suite']
    elif eid in ('suite_syntax_error', 'suite_missing_include'):
        body = {'suite_syntax_error': g.choice(['[setup]\nno-such-instruction x\n', '[no-such-section]\nx\n',
                                                '[conf]\npreprocessor\n']),
                'suite_missing_include': '[setup]\nincluding no-such-file.xly\n'}[eid]
        if ending['how'] == 'option':
            files['home/bad.suite'] = body
            argv_extra = ['--suite', 'bad.suite']
        else:
            files['home/exactly.suite'] = body
    elif eid == 'sandbox_cannot_be_created':
        pass
    elif eid.startswith('usage_'):
        pass
    else:
        raise kernel.HarnessError('unknown ending ' + eid)
    # orthogonal wrappings that must not change the verdict: an identity preprocessor, a valid suite with contents
    combos = []
    if not sweep and not argv_extra and ending['stage'] != 'usage' and eid not in (
            'unreadable_case', 'suite_syntax_error', 'suite_missing_include', 'suite_option_ok'):
        if g.random() < 0.3:
            argv_extra = argv_extra + ['--preprocessor', 'pp -i']
            procs['pp'] = {'exit': 0, 'stdout': '@CASE@'}
            combos.append('identity_preprocessor')
        if g.random() < 0.3:
            files['home/ok.suite'] = '[setup]\n% suite-setup\n[cleanup]\n% suite-cleanup\n'
            procs['suite-setup'] = {'exit': 0}
            procs['suite-cleanup'] = {'exit': 0}
            argv_extra = argv_extra + ['--suite', 'ok.suite']
            combos.append('valid_suite')
        if g.random() < 0.3 and 'atc' in procs and not procs['atc'].get('spawn_error'):
            # the action to check leaves a background process behind that keeps writing into act/: the sandbox can
            # then not be removed completely - which changes nothing about the verdict
            procs['atc'] = dict(procs['atc'], leaves_a_writing_descendant=True)
            combos.append('atc_leaves_a_writing_descendant')
    # instructions may carry a description (quoted in the error message of the instruction that ends the case)
    if (int(seed[:2], 16) % 4 == 0) if sweep else (g.random() < 0.3):
        for ph_ in ('setup', 'before-assert', 'assert', 'cleanup'):
            for it in case.get(ph_, []):
                if it['k'] in ('fault', 'probe') or (it.get('e') and '\n' not in it.get('text', '') and
                                                    not it.get('text', '').startswith('including')):
                    it['desc'] = 'a description\nof two lines'
        combos.append('described_instructions')
    lg = kernel.stream(seed, 'layout')
    if lg.random() < 0.3:
        # how the text is spread over files is no business of the outcome table: a section may start by including a file
        # ([conf]: one that sets a status which the case's own `status = ...`, following the directive, replaces)
        fi = [ph for ph in casegen.INSTR_PHASES if lg.random() < 0.4]
        if fi:
            case['layout'] = {'first_include': fi}
            combos.append('section_starts_by_including_a_file')
    plan = {'format': 1, 'property': PROPERTY, 'engine': 'c02', 'run_seed': seed, 'tier': tier, 'combos': combos,
            'knobs': {'mem_buff_size': g.choice([1, 7, 8192])}, 'entry': 'cli', 'status': status, 'mode': mode,
            'ending': ending, 'case': case, 'procs': procs, 'faults': faults, 'fsfaults': fsfaults, 'files': files,
            'argv_extra': argv_extra, 'sweep': sweep}
    if eid == 'sandbox_cannot_be_created':
        plan['resolver_fault'] = {'nth': 1, 'errno': g.choice(['ENOSPC', 'EACCES', 'EROFS'])}
    import json
    plan['fingerprint'] = json.loads(json.dumps(_fingerprint(plan)))
    return plan


def _fingerprint(plan):
    """What the ending needs in order to be the ending: the shrinker may not remove any of it."""
    case = plan['case']
    return {'e_items': sum(1 for ph in ('conf', 'setup', 'before-assert', 'assert', 'cleanup')
                           for it in case.get(ph, []) if it.get('e')),
            'faults': len(plan['faults']), 'fsfaults': len(plan.get('fsfaults', [])), 'tail': case.get('tail'),
            'pp': plan['procs'].get('pp'), 'resolver_fault': bool(plan.get('resolver_fault')),
            'aux_procs': {k: plan['procs'][k] for k in ('nostart', 'failing-tr') if k in plan['procs']},
            'atc_exit': plan['procs'].get('atc', {}).get('exit'),
            'atc_spawn_error': plan['procs'].get('atc', {}).get('spawn_error'),
            'act': case.get('act'), 'argv_extra': plan['argv_extra'], 'files': sorted(plan.get('files', {})),
            'pass_assert': any(it.get('text', '').startswith('exit-code == ') and not it.get('e')
                               for it in case.get('assert', []))}


# ----------------------------------------------------------------------------- execute

def execute(plan, scratch):
    w = world_mod.World(os.path.join(scratch, 'w'))
    files = casegen.render_files(plan['case'], plan['status'])
    text = files['t.case'] + plan['case'].get('tail', '')
    for name, ftext in files.items():
        w.write('home/' + name, text if name == 't.case' else ftext)
    w.populate(plan.get('files', {}))
    procs = plan['procs']
    if procs.get('pp', {}).get('stdout') == '@CASE@':
        plan = dict(plan, procs=dict(procs, pp=dict(procs['pp'], stdout=text)))
    eid = plan['ending']['id']
    mode_args = {'normal': [], 'keep': ['--keep'], 'act': ['--act']}[plan['mode']]
    if eid == 'usage_unknown_option':
        argv = mode_args + ['--no-such-option', 't.case']
    elif eid == 'usage_missing_file_argument':
        argv = mode_args
    elif eid == 'usage_nonexistent_file':
        argv = mode_args + ['no-such.case']
    elif eid == 'usage_nonexistent_suite':
        argv = mode_args + ['--suite', 'no-such.suite', 't.case']
    elif eid == 'usage_superfluous_argument':
        argv = mode_args + ['t.case', 'one-too-many']
    elif eid == 'usage_option_without_its_argument':
        argv = mode_args + ['t.case', ['--suite', '--actor', '--preprocessor'][int(plan['run_seed'][:2], 16) % 3]]
    elif eid == 'usage_option_after_the_file':
        argv = mode_args + ['t.case', '--no-such-option']
    else:
        argv = mode_args + plan['argv_extra'] + ['t.case']
    sim = kernel.Sim(plan, w)
    with patches.installed(sim):
        res = host.run_cli(sim, argv)
        leftover = w.tmp_entries()
        sbx_ok = None
        if sim.sandboxes:
            sbx_ok = sorted(os.listdir(sim.sandboxes[0])) if os.path.isdir(sim.sandboxes[0]) else None
        digest = sim.digest()
    atc_spawned = [s for s in sim.spawns if s['tag'] == 'atc' and not s.get('spawn_error')]
    hist = {'text': text, 'argv': argv, 'result': res, 'n_sandboxes': len(sim.sandboxes),
            'sbx_path': sim.sandboxes[0] if sim.sandboxes else None, 'sbx_listing': sbx_ok, 'leftover': leftover,
            'spawn_tags': [s['tag'] for s in sim.spawns], 'atc_ran': bool(atc_spawned),
            'fired_log': sim.fired, 'counts': dict(sim.counts),
            'digest': digest, 'sim_seconds': sim.clock.advanced}
    exp = expected(plan)
    pr = {'verdict_' + exp['verdict']: 1, 'mode_' + plan['mode']: 1}
    if plan['mode'] == 'act' and exp['passthrough']:
        pr['act_passthrough'] = 1
    for k in ('fsfault_fired', 'resolver_fault_fired'):
        if sim.counts.get(k):
            pr[k] = 1
    if 'pp' in hist['spawn_tags']:
        pr['preprocessor_ran'] = 1
    if sim.counts.get('straggler_wrote'):
        pr['sandbox_removal_disturbed_by_a_writing_process'] = 1
    if '--suite' in argv and eid != 'usage_nonexistent_suite':
        pr['suite_option'] = 1
    hist['probes'] = pr
    hist['armed'] = {eid: 1}
    hist['fired'] = {f['kind']: 1 for f in sim.fired}
    w.destroy()
    return hist


# ----------------------------------------------------------------------------- model: the documented table

def expected(plan):
    e, status, mode = plan['ending'], plan['status'], plan['mode']
    out = e['outcome']
    stage = e['stage']
    if stage == 'usage':
        return {'verdict': 'USAGE', 'code': 64, 'passthrough': False, 'sandbox': False}
    sandbox = None
    if stage in ('parse', 'conf'):
        verdict = out
        sandbox = False
    elif status == 'SKIP':
        verdict = 'SKIPPED'
        sandbox = False
    else:
        in_assertions = e['phase'] in ('before-assert', 'assert') and e['id'] not in (
            'undefined_symbol', 'missing_home_file', 'bad_integer', 'stub_validation')
        if mode == 'act' and in_assertions:
            out = 'pass'  # --act: before-assert and assert are skipped
        if out == 'pass':
            verdict = 'XPASS' if status == 'FAIL' else 'PASS'
        elif out == 'fail':
            verdict = 'XFAIL' if status == 'FAIL' else 'FAIL'
        else:
            verdict = out
        validation_time = e['id'] in ('undefined_symbol', 'missing_home_file', 'bad_integer', 'stub_validation',
                                      'act_stub_validation', 'stub_exception_in_validation', 'act_syntax') and \
            e.get('step') != 'post_setup'
        sandbox = not validation_time and e['id'] != 'sandbox_cannot_be_created'
    passthrough = mode == 'act' and verdict in ('PASS', 'FAIL', 'XPASS', 'XFAIL')
    return {'verdict': verdict, 'code': CODE.get(verdict), 'passthrough': passthrough, 'sandbox': sandbox}


def oracle(plan, hist):
    V = []

    def bad(rule, expected_, observed):
        V.append({'rule': 'C02.' + rule, 'expected': expected_, 'observed': observed})

    res = hist['result']
    if res.get('hang') or res.get('escape') or res.get('exception'):
        bad('returns', 'MainProgram.execute returns an exit code', {k: res.get(k) for k in ('hang', 'escape', 'exception')})
        return V
    x = expected(plan)
    mode = plan['mode']
    e = plan['ending']
    out, err, code = res['stdout'], res['stderr'], res['exit']
    atc = plan['procs']['atc']
    out_lines = out.split('\n')
    err_lines = err.split('\n')
    if e['stage'] != 'usage' and mode == 'act' and e['outcome'] in ('VALIDATION_ERROR',) and \
            e['phase'] in ('before-assert', 'assert'):
        return V  # whether skipped phases are validated under --act is not stated: not judged
    if x['verdict'] == 'USAGE':
        if code != 64:
            bad('usage.exit_code', 64, code)
        if out != '':
            bad('usage.stdout_empty', '', out)
        ids = [l for l in out_lines + err_lines if l in IDENTS]
        if ids:
            bad('usage.no_identifier', [], ids)
        if hist['n_sandboxes'] or hist['spawn_tags']:
            bad('usage.nothing_executed', [], hist['spawn_tags'])
        return V
    if x['verdict'] == 'SOME_ERROR':
        seen = (out_lines if mode == 'normal' else err_lines)[0]
        seen = seen if seen in ('FILE_ACCESS_ERROR', 'SYNTAX_ERROR', 'INTERNAL_ERROR') else 'FILE_ACCESS_ERROR'
        x = dict(x, verdict=seen, code=CODE[seen])
    ident = x['verdict']
    if x['passthrough']:
        if out != atc.get('stdout', ''):
            bad('act.stdout_is_the_actions_stdout', atc.get('stdout', ''), out)
        if err != atc.get('stderr', ''):
            bad('act.stderr_is_the_actions_stderr', atc.get('stderr', ''), err)
        if code != atc.get('exit', 0):
            bad('act.exit_code_is_the_actions', atc.get('exit', 0), code)
        return V
    # ---- identifier placement and exit code
    if mode == 'normal':
        got = out_lines[0] if out.endswith('\n') and len(out_lines) == 2 else None
        ids_elsewhere = [l for l in err_lines if l in IDENTS]
        if got is None:
            bad('normal.stdout_is_exactly_the_identifier', ident + '\n', out)
        where = 'normal'
    elif mode == 'keep':
        got = err_lines[0] if err_lines and err_lines[0] in IDENTS else None
        ids_elsewhere = [l for l in err_lines[1:] + out_lines if l in IDENTS]
        want_out = (hist['sbx_path'] + '\n') if hist['n_sandboxes'] else ''
        if out != want_out:
            bad('keep.stdout_is_only_the_sandbox_path', want_out, out)
        if hist['n_sandboxes'] and hist['sbx_listing'] != ['act', 'internal', 'result', 'tmp']:
            bad('keep.sandbox_is_kept', ['act', 'internal', 'result', 'tmp'], hist['sbx_listing'])
        if got is None:
            bad('keep.identifier_first_on_stderr', ident, err_lines[:2])
        where = 'keep'
    else:  # act, not passed through
        head_out = atc.get('stdout', '') if hist['atc_ran'] else ''
        head_err = atc.get('stderr', '') if hist['atc_ran'] else ''
        if out != head_out:
            bad('act.stdout_only_what_the_action_wrote', head_out, out)
        rest = err[len(head_err):] if err.startswith(head_err) else None
        if rest is None:
            bad('act.stderr_starts_with_what_the_action_wrote', head_err, err[:len(head_err) + 40])
            rest = err
        rl = rest.split('\n')
        got = rl[0] if rl and rl[0] in IDENTS else None
        ids_elsewhere = [l for l in rl[1:] if l in IDENTS]
        if got is None:
            bad('act.identifier_on_stderr', ident, rl[:2])
        where = 'act'
    if got is not None:
        if got != ident:
            bad('table.verdict', {'ending': e['id'], 'phase': e['phase'], 'status': plan['status'], 'mode': mode,
                                  'verdict': ident}, got)
        if CODE.get(got) != code:
            bad('table.exit_code_corresponds_to_identifier', {'identifier': got, 'code': CODE.get(got)}, code)
    if code != x['code'] and (got is None or got == ident):
        bad('table.exit_code', x['code'], code)
    if ids_elsewhere:
        bad(where + '.single_identifier_line', [], ids_elsewhere)
    if mode != 'keep' and hist['leftover'] and 'atc_leaves_a_writing_descendant' not in plan.get('combos', []):
        bad('sandbox_removed', [], hist['leftover'])  # (not when a process Exactly cannot stop keeps writing into it)
    return V


def classify_known(plan, hist, violation, kf):
    return False


def signature(plan, hist):
    e = plan['ending']
    x = expected(plan)
    code = plan['procs']['atc'].get('exit', 0)
    return True, (e['id'], e['phase'], e.get('step'), e.get('how'), plan['status'], plan['mode'], x['verdict'],
                  code if plan.get('sweep') else min(code, 3), tuple(plan.get('combos', [])),
                  plan['knobs']['mem_buff_size'])


def sample_view(plan, hist):
    r = hist['result']
    return {'argv': hist['argv'], 'case_text': hist['text'], 'exit': r['exit'],
            'stdout': (r['stdout'] or '').replace(hist['sbx_path'] or '\0', '$SBX'), 'stderr_head': (r['stderr'] or '')[:200],
            'expected': expected(plan), 'spawned': hist['spawn_tags']}


def normalize(plan):
    for ph in ('conf', 'setup', 'before-assert', 'assert', 'cleanup'):
        plan['case'].setdefault(ph, [])
    if 'atc' not in plan['procs'] or 'act' not in plan['case']:
        return None
    fp = dict(plan['fingerprint'])
    import json
    now = json.loads(json.dumps(_fingerprint(plan)))
    if now != fp:
        return None
    return plan
