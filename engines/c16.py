"""C16 — Suite run: every case once, verdict OK iff all succeed, reporters agree.

A suite run is a long history produced by one interpreter in which every case's outcome is decided by peers
(children's exit codes, a stalled child under the simulated clock), injected step faults and I/O faults.  The
property relates three observations of the same run: what actually executed (marker children in the spawn
history), what the progress reporter says, what JUnit says.  Each plan is run once per reporter in the same world.
"""
import os
import re
import xml.etree.ElementTree as ET

from sim import kernel, world as world_mod, patches, host

PROPERTY = 'C16'
LEVEL = 'exploration'
ISOLATE = True  # every plan runs in a forked child: interpreter-global state cannot leak between plans
RULE_TEXT = ('runs = seeded random suite hierarchies (depth <= 3, <= 3 sub-suites and <= 5 cases per suite; listings by '
             'plain names in random order, glob patterns, directory references to exactly.suite; suite-level [setup] '
             'markers) with every case built from a known ending (PASS, FAIL, XFAIL, XPASS, SKIPPED, VALIDATION_ERROR, '
             'HARD_ERROR by child exit code and by timeout, INTERNAL_ERROR, parse-time and act-phase SYNTAX_ERROR, '
             'FILE_ACCESS_ERROR by missing include and by an unreadable case file), plus structural faults (suite '
             'reachable twice, cycle, self reference, missing sub-suite, missing case, syntax error in a (sub-)suite '
             'file); a fixed sweep assigns every verdict to a case of a one-suite and of a two-level hierarchy. Each '
             'plan runs with both reporters. Non-trivial = >= 2 cases or a structural fault; distinct = (hierarchy '
             'shape, listing styles, multiset of endings, structural fault).')
REACH_PROBES = ['suite_with_preprocessor_and_several_cases', 'invalid_not_text', 'case_name_with_glob_characters_listed_in_quotes', 'launched_with_directory_argument', 'launched_from_another_directory', 'case_listed_twice_in_one_suite', 'case_listed_twice_ends_differently', 'section_reopened', 'section_headers_indented', 'suites_by_glob_of_directories', 'suites_by_glob_of_files', 'ending_processor_fails', 'verdict_PASS', 'verdict_FAIL', 'verdict_XFAIL', 'verdict_XPASS', 'verdict_SKIPPED',
                'verdict_VALIDATION_ERROR', 'verdict_HARD_ERROR', 'verdict_INTERNAL_ERROR', 'verdict_SYNTAX_ERROR',
                'verdict_FILE_ACCESS_ERROR', 'ending_act_syntax', 'ending_unreadable', 'ending_timeout', 'all_ok',
                'some_unsuccessful', 'sub_suite', 'depth_3', 'glob_listing', 'directory_reference', 'invalid_twice',
                'invalid_cycle', 'invalid_missing_suite', 'invalid_missing_case', 'invalid_syntax', 'junit_single_suite',
                'junit_many_suites', 'root_without_cases']

SUCCESS = {'PASS', 'SKIPPED', 'XFAIL'}
PASS_BODY = '[setup]\n% mark-{id}\n[act]\n% atc\n[assert]\nexit-code == 0\n'
ENDINGS = {
    # name: (text, identifier, marker runs)
    'PASS': (PASS_BODY, 'PASS', True),
    'FAIL': ('[setup]\n% mark-{id}\n[act]\n% atc\n[assert]\nexit-code == 1\n', 'FAIL', True),
    # a case that uses the output of a program as a text; the program also writes on the other channel: none of that is
    # part of the report
    'PASS_chatty': ('[setup]\n% mark-{id}\nfile -rel-tmp c.txt = -stderr-from -ignore-exit-code % chatty\n[act]\n% atc\n'
                    '[assert]\nexit-code == 0\ncontents -rel-tmp c.txt : equals -stdout-from -ignore-exit-code % chatty2\n', 'PASS', True),
    'FAIL_chatty': ('[setup]\n% mark-{id}\nfile -rel-tmp c.txt = -stdout-from -ignore-exit-code % chatty\n[act]\n% atc\n'
                    '[assert]\nexit-code == 1\n', 'FAIL', True),
    'FAIL_run': ('[setup]\n% mark-{id}\n[act]\n% atc\n[assert]\nrun % failing\n', 'FAIL', True),
    'XFAIL': ('[conf]\nstatus = FAIL\n[setup]\n% mark-{id}\n[act]\n% atc\n[assert]\nexit-code == 1\n', 'XFAIL', True),
    'XPASS': ('[conf]\nstatus = FAIL\n' + PASS_BODY, 'XPASS', True),
    'SKIPPED': ('[conf]\nstatus = SKIP\n' + PASS_BODY, 'SKIPPED', False),
    'VALIDATION_ERROR': ('[setup]\n% mark-{id}\n[act]\n% atc\n[assert]\nexit-code == notAnInteger\n', 'VALIDATION_ERROR', False),
    'VALIDATION_ERROR_symbol': ('[setup]\n% mark-{id}\n[act]\n% atc\n[cleanup]\nfile x = @[UNDEFINED]@\n', 'VALIDATION_ERROR', False),
    'HARD_ERROR': ('[setup]\n% mark-{id}\n[act]\n% atc\n[before-assert]\nrun % failing\n', 'HARD_ERROR', True),
    'HARD_ERROR_cleanup': ('[setup]\n% mark-{id}\n[act]\n% atc\n[cleanup]\n% failing\n', 'HARD_ERROR', True),
    'HARD_ERROR_timeout': ('[setup]\n% mark-{id}\ntimeout = 2\n[act]\n% atc\n[before-assert]\n% stall\n', 'HARD_ERROR', True),
    'HARD_ERROR_spawn': ('[setup]\n% mark-{id}\n[act]\n% nostart\n', 'HARD_ERROR', True),
    'INTERNAL_ERROR': ('[setup]\n% mark-{id}\n[act]\n% atc\n[assert]\nsim-fault ax{id}\n', 'INTERNAL_ERROR', True),
    # failures in the [conf] phase itself (before anything else of the case is looked at)
    'CONF_VALIDATION_ERROR': ('[conf]\nhome = no-such-dir-{id}\n' + PASS_BODY, 'VALIDATION_ERROR', False),
    'CONF_VALIDATION_ERROR_act_home': ('[conf]\nact-home = no-such-dir-{id}\n' + PASS_BODY, 'VALIDATION_ERROR', False),
    # the status is SKIP already when a later [conf] instruction fails: only the REMAINING phases are skipped
    'SKIP_THEN_CONF_VALIDATION_ERROR': ('[conf]\nstatus = SKIP\nhome = no-such-dir-{id}\n' + PASS_BODY, 'VALIDATION_ERROR', False),
    'SKIP_THEN_CONF_INTERNAL_ERROR': ('[conf]\nstatus = SKIP\nsim-fault cx{id}\n' + PASS_BODY, 'INTERNAL_ERROR', False),
    'CONF_HARD_ERROR': ('[conf]\nsim-fault cx{id}\n' + PASS_BODY, 'HARD_ERROR', False),
    'CONF_INTERNAL_ERROR': ('[conf]\nsim-fault cx{id}\n' + PASS_BODY, 'INTERNAL_ERROR', False),
    'SYNTAX_ERROR': ('[setup]\n% mark-{id}\nno-such-instruction\n[act]\n% atc\n', 'SYNTAX_ERROR', False),
    'ACT_SYNTAX_ERROR': ("[setup]\n% mark-{id}\n[act]\n'unterminated quote\n", 'SYNTAX_ERROR', False),
    'FILE_ACCESS_ERROR': ('[setup]\n% mark-{id}\nincluding no-such-file.xly\n[act]\n% atc\n', 'FILE_ACCESS_ERROR', False),
    'UNREADABLE': (PASS_BODY, 'FILE_ACCESS_ERROR', False),
    # the per-case processor itself fails: the sandbox of this case cannot be created (the resolver seam raises)
    'PROCESSOR_FAILS': (PASS_BODY, 'INTERNAL_ERROR', False),
}
ENDING_NAMES = sorted(ENDINGS)
# only for a case that is listed twice: its action ends differently the second time it is run (FAIL, then PASS)
ENDINGS['FLAKY'] = ('[setup]\n% mark-{id}\n[act]\n% flaky-{id}\n[assert]\nexit-code == 0\n', 'FAIL', True)
STRUCT_FAULTS = ['twice', 'twice_other_spelling', 'cycle', 'self', 'missing_suite', 'missing_case', 'syntax_root',
                 'syntax_sub', 'not_text_root', 'not_text_sub', 'syntax_conf_root', 'syntax_conf_sub']


def total_runs(tier):
    return len(sweep_specs()) + (500 if tier == 'quick' else 50000)


_SW = {}


def sweep_specs():
    if 's' not in _SW:
        sp = []
        for e in ENDING_NAMES:
            sp.append(('single', e))
            sp.append(('two_level', e))
        for f in STRUCT_FAULTS:
            sp.append(('struct', f))
        _SW['s'] = sp
    return _SW['s']


def make_plan(i, master, tier):
    seed = kernel.run_seed(master, PROPERTY, i)
    g = kernel.stream(seed, 'gen')
    sp = sweep_specs()
    if i < len(sp):
        kind, x = sp[i]
        if kind == 'single':
            h = {'root': {'dir': '', 'file': 'root.suite', 'subs': [], 'cases': _cases(g, ['PASS', x, 'PASS'], 0),
                          'style': 'explicit', 'ref': None, 'setup_marker': True}}
            return _plan(seed, tier, g, h, None, True)
        if kind == 'two_level':
            h = {'root': {'dir': '', 'file': 'root.suite', 'subs': ['s1'], 'cases': _cases(g, ['PASS', 'FAIL'], 0),
                          'style': 'explicit', 'ref': None, 'setup_marker': False},
                 's1': {'dir': 'd1', 'file': 's1.suite', 'subs': [], 'cases': _cases(g, [x, 'PASS'], 10),
                        'style': 'glob', 'ref': 'file', 'setup_marker': True}}
            return _plan(seed, tier, g, h, None, True)
        return _plan(seed, tier, g, gen_hierarchy(g, force_subs=True), x, True)
    h = gen_hierarchy(g)
    fault = g.choice(STRUCT_FAULTS) if g.random() < 0.15 else None
    return _plan(seed, tier, g, h, fault, False)


def _cases(g, endings, base):
    return [{'id': 'c%02d' % (base + k), 'ending': e} for k, e in enumerate(endings)]


def gen_hierarchy(g, force_subs=False):
    """suite key -> {'dir', 'file', 'subs': [keys], 'cases': [{'id','ending'}], 'style', 'ref', 'setup_marker'}"""
    h = {}
    counter = [0, 0]

    def mk(key, d, depth, ref):
        n_cases = g.choice([0, 1, 2, 3, 5]) if key != 'root' else g.choice([0, 1, 2, 3])
        cases = []
        for _ in range(n_cases):
            counter[1] += 1
            r = g.random()
            e = 'PASS' if r < 0.45 else g.choice(ENDING_NAMES)
            cases.append({'id': 'c%02d' % counter[1], 'ending': e})
            if g.random() < 0.12:
                cases[-1]['odd_name'] = True
        fname = 'exactly.suite' if ref == 'dir' else ('%s.suite' % key)
        h[key] = {'dir': d, 'file': fname, 'subs': [], 'cases': cases, 'style': g.choice(['explicit', 'explicit', 'glob', 'mixed']),
                  'ref': ref, 'setup_marker': g.random() < 0.4,
                  # the cases of the suite are read through a preprocessor (one that works like cat: all its operands)
                  'preprocessor': g.random() < 0.2}
        if depth < 3:
            n_subs = g.choice([0, 0, 1, 2, 3]) if depth > 1 or not force_subs else g.choice([1, 2, 3])
            for _ in range(n_subs):
                if len(h) >= 7:
                    break
                counter[0] += 1
                sk = 's%d' % counter[0]
                h[key]['subs'].append(sk)
                mk(sk, os.path.join(d, 'd%d' % counter[0]), depth + 1, g.choice(['file', 'file', 'dir']))

    mk('root', '', 1, None)
    # how a suite lists its sub-suites: by name (files / directories), or by a glob that matches directories with a
    # default suite file, or by a glob that matches suite files; glob matches are processed in sorted order
    for key, s in h.items():
        # "A section may appear any number of times. The contents of all appearances are accumulated."
        s['reopen'] = g.random() < 0.3
        s['subs_style'] = 'explicit'
        # a section header may be preceded by white space
        s['indent'] = ''
        if s['subs'] and g.random() < 0.4:
            style = g.choice(['glob_dirs', 'glob_files'])
            s['subs_style'] = style
            for sk in s['subs']:
                h[sk]['ref'] = 'dir' if style == 'glob_dirs' else 'file'
                h[sk]['file'] = 'exactly.suite' if style == 'glob_dirs' else '%s.suite' % sk
            s['subs'] = sorted(s['subs'], key=lambda sk: h[sk]['dir'])
    for s_ in h.values():
        if s_.get('preprocessor'):
            for c in s_['cases']:
                if c['ending'] == 'UNREADABLE':
                    c['ending'] = 'PASS'  # (who fails to read the file - Exactly or its preprocessor - is another question)
    # explicit listings are written in a random order: that order is the listing order
    for s in h.values():
        if s['style'] in ('explicit', 'mixed'):
            g.shuffle(s['cases'])
    # a case file that one suite lists twice (by name twice, or by name and again by a glob): whether it is then
    # processed once or once per listing is not stated and not judged - but whatever is processed is reported
    # consistently by both reporters and counts for the final verdict
    if g.random() < 0.2:
        cands = []
        for key in sorted(h):
            s_ = h[key]
            for k, c in enumerate(s_['cases']):
                cands.append((key, k, 'explicit_twice' if case_file(s_, c, k).endswith('.tc') else 'explicit_and_glob'))
        if cands:
            key, k, how = g.choice(cands)
            h[key]['dup'] = {'k': k, 'how': how}
            if g.random() < 0.6:
                h[key]['cases'][k]['ending'] = 'FLAKY'
            for s_ in h.values():
                for c in s_['cases']:
                    if c['ending'] == 'PROCESSOR_FAILS':
                        c['ending'] = 'PASS'  # (its model counts sandbox creations, which a double listing makes ambiguous)
    return h


def _plan(seed, tier, g, h, fault, sweep):
    # how the run is launched: the root suite named as a file (from its directory), as the directory that holds it
    # (default suite file), or from elsewhere
    launch = kernel.stream(seed, 'launch').choice([None, None, 'dir', 'elsewhere'])
    if launch == 'dir':
        h['root']['file'] = 'exactly.suite'
    ig = kernel.stream(seed, 'indent')
    for key in sorted(h):
        if ig.random() < 0.2:
            h[key]['indent'] = ig.choice(['  ', ' ', '\t', '    '])
    return {'launch': launch, 'format': 1, 'property': PROPERTY, 'engine': 'c16', 'run_seed': seed, 'tier': tier,
            'knobs': {'mem_buff_size': g.choice([1, 8192])}, 'entry': 'cli', 'hierarchy': h, 'struct_fault': fault,
            'sweep': sweep}


# ----------------------------------------------------------------------------- model

def case_file(s, c, style_index):
    """File name of a case: explicit listings use .tc, glob listings .case (so that they never overlap)."""
    style = s['style']
    if style == 'explicit':
        ext = 'tc'
    elif style == 'glob':
        ext = 'case'
    else:
        ext = 'tc' if style_index < (len(s['cases']) + 1) // 2 else 'case'
    if c.get('odd_name') and ext == 'tc':
        # a file name with characters that mean something in a glob pattern: listed within quotes, it is that file
        return '[w] %s.%s' % (c['id'], ext)
    return '%s.%s' % (c['id'], ext)


def _listed(f):
    return "'%s'" % f if any(ch in f for ch in '[]*? ') else f


def listing(s):
    """(lines of the [cases] section, cases in the model's execution order)"""
    lines, order = [], []
    style = s['style']
    globbed = []
    for k, c in enumerate(s['cases']):
        f = case_file(s, c, k)
        if f.endswith('.tc'):
            lines.append(_listed(f))
            order.append((c, f))
        else:
            globbed.append((c, f))
    dup = s.get('dup')
    if dup and dup['how'] == 'explicit_twice' and dup['k'] < len(s['cases']):
        c = s['cases'][dup['k']]
        f = case_file(s, c, dup['k'])
        lines.append(_listed(f))
        order.append((c, f))
    if dup and dup['how'] == 'explicit_and_glob' and dup['k'] < len(s['cases']):
        c = s['cases'][dup['k']]
        f = case_file(s, c, dup['k'])
        lines.insert(0, _listed(f))
        order.insert(0, (c, f))
    if globbed:
        lines.append('*.case')
        order.extend(sorted(globbed, key=lambda cf: cf[1]))
    return lines, order


def model_order(h, key='root'):
    """Depth first: sub-suites (in listing order) before the suite that lists them."""
    out = []
    s = h[key]
    for sk in s['subs']:
        out.extend(model_order(h, sk))
    out.append(key)
    return out


def suite_path(h, key):
    s = h[key]
    return os.path.join(s['dir'], s['file'])


def build_world(plan, w):
    h = plan['hierarchy']
    fsfaults = []
    for key, s in h.items():
        lines = []
        case_lines_all, _order = listing(s)
        head_cases = []
        if s.get('preprocessor') and not (s.get('reopen') and len(case_lines_all) >= 2):
            lines += ['[conf]', 'preprocessor = pp -x']
        if s.get('reopen') and len(case_lines_all) >= 2:
            # the first case lines come before any header (default section = cases); the rest in a re-opened [cases]
            k = max(1, len(case_lines_all) // 2)
            head_cases = case_lines_all[:k]
            lines.extend(head_cases)
        if s['subs']:
            lines.append('[suites]')
            style = s.get('subs_style', 'explicit')
            if style == 'glob_dirs':
                lines.append('d*')
            elif style == 'glob_files':
                lines.append('d*/*.suite')
            else:
                for sk in s['subs']:
                    sub = h[sk]
                    rel = sub['dir'][len(s['dir']):].lstrip('/')
                    lines.append(rel if sub['ref'] == 'dir' else os.path.join(rel, sub['file']))
        case_lines, order = listing(s)
        case_lines = case_lines[len(head_cases):]
        if s.get('reopen') and s['setup_marker'] and len(case_lines) >= 2:
            # [cases] ... [setup] ... [cases] again
            lines.append('[cases]')
            lines.append(case_lines[0])
            lines.append('[setup]')
            lines.append('% suite-setup-' + key)
            lines.append('[cases]')
            lines.extend(case_lines[1:])
        else:
            if case_lines:
                lines.append('[cases]')
                lines.extend(case_lines)
            if s['setup_marker']:
                lines.append('[setup]')
                lines.append('% suite-setup-' + key)
        if s.get('indent'):
            # a section header may be preceded by white space: it is the same header
            lines = [(s['indent'] + ln) if (ln.startswith('[') and ln.endswith(']')) else ln for ln in lines]
        w.write(os.path.join('home', s['dir'], s['file']), '\n'.join(lines) + '\n')
        for c, f in order:
            text, ident, marker = ENDINGS[c['ending']]
            w.write(os.path.join('home', s['dir'], f), text.replace('{id}', c['id']))
            if c['ending'] == 'UNREADABLE':
                fsfaults.append({'path_suffix': os.path.join('home', s['dir'], f), 'op': 'open', 'nth': 0, 'errno': 'EACCES'})
    fault = plan['struct_fault']
    keys = [k for k in model_order(h) if k != 'root']
    root = h['root']
    rootp = os.path.join(w.home, root['file'])

    def append(path, text):
        with open(path, 'a') as f:
            f.write(text)

    def add_suite_ref(path, ref):
        with open(path) as f:
            txt = f.read()
        if '[suites]' in txt:
            txt = txt.replace('[suites]\n', '[suites]\n' + ref + '\n', 1)
        else:
            txt = '[suites]\n' + ref + '\n' + txt
        with open(path, 'w') as f:
            f.write(txt)

    if fault == 'twice_other_spelling':
        # the same suite file reachable twice through differently spelled paths (a `..` component)
        os.makedirs(os.path.join(w.home, 'dz'), exist_ok=True)
        if keys:
            target = keys[0]
            add_suite_ref(rootp, os.path.join('dz', '..', suite_path(h, target) if h[target]['ref'] != 'dir' else h[target]['dir']))
        else:
            w.write('home/dx/x.suite', '[cases]\n')
            add_suite_ref(rootp, 'dx/x.suite')
            add_suite_ref(rootp, 'dz/../dx/x.suite')
    elif fault == 'twice':
        # a suite reachable twice: the deepest sub-suite is also listed by the root (or listed twice)
        if keys:
            target = keys[0]
            add_suite_ref(rootp, suite_path(h, target) if h[target]['ref'] != 'dir' else (h[target]['dir']))
            if target in root['subs']:
                pass
        else:
            w.write('home/dx/x.suite', '[cases]\n')
            add_suite_ref(rootp, 'dx/x.suite')
            add_suite_ref(rootp, 'dx/x.suite')
    elif fault == 'cycle':
        if keys:
            target = keys[0]
            tp = os.path.join(w.home, suite_path(h, target))
            add_suite_ref(tp, os.path.relpath(rootp, os.path.dirname(tp)))
        else:
            w.write('home/dx/x.suite', '[suites]\n../%s\n' % root['file'])
            add_suite_ref(rootp, 'dx/x.suite')
    elif fault == 'self':
        add_suite_ref(rootp, root['file'])
    elif fault == 'missing_suite':
        tp = os.path.join(w.home, suite_path(h, keys[-1])) if keys else rootp
        add_suite_ref(tp, 'no-such.suite')
    elif fault == 'missing_case':
        tp = os.path.join(w.home, suite_path(h, keys[0])) if keys else rootp
        append(tp, '[cases]\n%s\n' % ("'[todo] no-such-case.tc'" if int(plan['run_seed'][:2], 16) % 2 else 'no-such-case.tc'))
    elif fault == 'syntax_root':
        append(rootp, '[no-such-section]\nx\n')
    elif fault == 'syntax_sub':
        tp = os.path.join(w.home, suite_path(h, keys[0])) if keys else rootp
        append(tp, '[cases\nbroken header\n')
    elif fault in ('syntax_conf_root', 'syntax_conf_sub'):
        # a [conf] instruction of the suite that is not well-formed
        tp = os.path.join(w.home, suite_path(h, keys[0])) if (keys and fault == 'syntax_conf_sub') else rootp
        v = ['preprocessor =', 'preprocessor =   ', 'preprocessor', 'actor =', 'no-such-conf-instruction x',
             "preprocessor = 'unterminated"][int(plan['run_seed'][:4], 16) % 6]
        append(tp, '[conf]\n%s\n' % v)
    elif fault in ('not_text_root', 'not_text_sub'):
        # a suite file whose bytes are not text in the encoding in use (the byte 0xE9 alone is not UTF-8): it cannot be
        # read as a suite, whatever it was meant to say
        tp = os.path.join(w.home, suite_path(h, keys[0])) if (keys and fault == 'not_text_sub') else rootp
        with open(tp, 'ab') as f:
            f.write(b'# caf\xe9\n')
    return fsfaults


def has_double_listing(plan):
    return any(s.get('dup') and s['dup']['k'] < len(s['cases']) for s in plan['hierarchy'].values())


def expected_cases(plan, variant='per_listing'):
    """[(suite key, case id, file rel. root dir, identifier, marker?)] in the model's order.
    variant (only matters for a case listed twice in one suite): processed once per listing / only where it is listed
    first / only where it is listed last"""
    h = plan['hierarchy']
    out = []
    seen_pf = False
    for key in model_order(h):
        s = h[key]
        _, order = listing(s)
        files = [f for _, f in order]
        if variant == 'first_listing':
            order = [cf for i, cf in enumerate(order) if cf[1] not in files[:i]]
        elif variant == 'last_listing':
            order = [cf for i, cf in enumerate(order) if cf[1] not in files[i + 1:]]
        seen_files = []
        for c, f in order:
            text, ident, marker = ENDINGS[c['ending']]
            if c['ending'] == 'FLAKY' and f in seen_files:
                ident = 'PASS'
            seen_files.append(f)
            if c['ending'] == 'PROCESSOR_FAILS':
                if seen_pf:
                    ident, marker = 'PASS', True  # only one sandbox creation per run is made to fail
                seen_pf = True
            out.append({'suite': key, 'id': c['id'], 'file': os.path.join(s['dir'], f), 'ident': ident,
                        'marker': marker, 'ending': c['ending']})
    return out


# ----------------------------------------------------------------------------- execute

def execute(plan, scratch):
    w = world_mod.World(os.path.join(scratch, 'w'))
    fsfaults = build_world(plan, w)
    faults = [{'id': 'ax' + c['id'], 'step': 'main', 'kind': 'raise_exc', 'exc': 'RuntimeError'}
              for s in plan['hierarchy'].values() for c in s['cases'] if c['ending'] == 'INTERNAL_ERROR']
    faults += [{'id': 'cx' + c['id'], 'step': 'main', 'exc': 'RuntimeError',
                'kind': 'raise_exc' if c['ending'] in ('CONF_INTERNAL_ERROR', 'SKIP_THEN_CONF_INTERNAL_ERROR') else 'svh_hard'}
               for s in plan['hierarchy'].values() for c in s['cases'] if c['ending'] in ('CONF_INTERNAL_ERROR', 'CONF_HARD_ERROR', 'SKIP_THEN_CONF_INTERNAL_ERROR')]
    procs = {'atc': {'exit': 0}, 'failing': {'exit': 3, 'stderr': 'boom\n'}, 'stall': {'duration': 'inf'},
             'nostart': {'spawn_error': 'ENOENT'}, 'pp': {'exit': 0, 'cat_last_arg_file': True},
             'chatty': {'exit': 2, 'stdout': 'chatty: written on stdout\n', 'stderr': 'same text\n'},
             'chatty2': {'exit': 1, 'stdout': 'same text\n', 'stderr': 'chatty2: written on stderr\n'}}
    for s_ in plan['hierarchy'].values():
        for c in s_['cases']:
            if c['ending'] == 'FLAKY':
                procs['flaky-' + c['id']] = {'exit_by_invocation': [1, 0]}
    runs = {}
    digests = []
    sim_seconds = 0.0
    os.makedirs(os.path.join(w.home, 'zstart'), exist_ok=True)
    before = w.snapshot(('home',))
    # at most one case whose sandbox cannot be created: the n-th sandbox creation of the run fails
    resolver_fault = None
    n_sbx = 0
    seen_pf = False
    for c in expected_cases(plan):
        if c['ending'] == 'PROCESSOR_FAILS' and not seen_pf:
            seen_pf = True
            resolver_fault = {'nth': n_sbx + 1, 'errno': 'ENOSPC'}
            n_sbx += 1
        elif c['marker'] or c['ending'] == 'PROCESSOR_FAILS':
            n_sbx += 1
    for rep in ('progress', 'junit'):
        p2 = dict(plan, procs=procs, faults=[dict(f) for f in faults], fsfaults=fsfaults, resolver_fault=resolver_fault)
        sim = kernel.Sim(p2, w)
        launch = plan.get('launch')
        root_arg = {'dir': '.', 'elsewhere': os.path.join('..', plan['hierarchy']['root']['file'])}.get(
            launch, plan['hierarchy']['root']['file'])
        argv = ['suite'] + (['--reporter', 'junit'] if rep == 'junit' else []) + [root_arg]
        with patches.installed(sim):
            res = host.run_cli(sim, argv, tap=True, cwd=os.path.join(w.home, 'zstart') if launch == 'elsewhere' else None)
            leftover = w.tmp_entries()
        # bracket spawn events with the progress lines: (seq of out-events, seq of spawns)
        stream = []
        for e in sim.events:
            if e['ev'] == 'out':
                stream.append(('out', e['which'], e['s']))
            elif e['ev'] == 'spawn':
                stream.append(('spawn', e['tag']))
        runs[rep] = {'exit': res['exit'], 'stdout': res['stdout'], 'stderr': res['stderr'],
                     'exception': res.get('exception'), 'hang': res.get('hang'), 'stream': stream,
                     'markers': [s['tag'] for s in sim.spawns if s['tag'].startswith('mark-') or s['tag'].startswith('suite-setup-')],
                     'n_spawns': len(sim.spawns), 'leftover': leftover, 'cwd_ok': res['cwd_ok'], 'environ_ok': res['environ_ok']}
        digests.append(sim.digest())
        sim_seconds += sim.clock.advanced
    after = w.snapshot(('home',))
    hist = {'runs': runs, 'home_unchanged': before == after, 'digest': kernel.digest(digests), 'sim_seconds': sim_seconds}
    _probes(plan, hist)
    w.destroy()
    return hist


def _probes(plan, hist):
    pr = {}
    h = plan['hierarchy']
    ex = expected_cases(plan)
    f = plan['struct_fault']
    if f:
        pr['invalid_' + {'twice': 'twice', 'twice_other_spelling': 'twice', 'cycle': 'cycle', 'self': 'cycle', 'missing_suite': 'missing_suite',
                         'missing_case': 'missing_case', 'syntax_root': 'syntax', 'syntax_sub': 'syntax',
                         'not_text_root': 'not_text', 'not_text_sub': 'not_text',
                         'syntax_conf_root': 'syntax', 'syntax_conf_sub': 'syntax'}[f]] = 1
    else:
        for c in ex:
            pr['verdict_' + c['ident']] = 1
            if c['ending'] == 'ACT_SYNTAX_ERROR':
                pr['ending_act_syntax'] = 1
            if c['ending'] == 'UNREADABLE':
                pr['ending_unreadable'] = 1
            if c['ending'] == 'HARD_ERROR_timeout':
                pr['ending_timeout'] = 1
            if c['ending'] == 'PROCESSOR_FAILS' and c['ident'] == 'INTERNAL_ERROR':
                pr['ending_processor_fails'] = 1
        if ex:
            pr['all_ok' if all(c['ident'] in SUCCESS for c in ex) else 'some_unsuccessful'] = 1
        if len(h) > 1:
            pr['sub_suite'] = 1
            pr['junit_many_suites'] = 1
        else:
            pr['junit_single_suite'] = 1
        if any(s['dir'].count('d') >= 2 for s in h.values()):
            pr['depth_3'] = 1
        if any(s['style'] in ('glob', 'mixed') and s['cases'] for s in h.values()):
            pr['glob_listing'] = 1
        if any(s['ref'] == 'dir' for s in h.values()):
            pr['directory_reference'] = 1
        if any(c.get('odd_name') and '[' in f for s_ in h.values() for c, f in listing(s_)[1]):
            pr['case_name_with_glob_characters_listed_in_quotes'] = 1
        if any(s_.get('preprocessor') and len(s_['cases']) >= 2 for s_ in h.values()):
            pr['suite_with_preprocessor_and_several_cases'] = 1
        if plan.get('launch'):
            pr['launched_' + {'dir': 'with_directory_argument', 'elsewhere': 'from_another_directory'}[plan['launch']]] = 1
        if has_double_listing(plan):
            pr['case_listed_twice_in_one_suite'] = 1
            if any(c['ending'] == 'FLAKY' for c in ex):
                pr['case_listed_twice_ends_differently'] = 1
        for s in h.values():
            if s.get('reopen') and len(s['cases']) >= 2:
                pr['section_reopened'] = 1
            if s.get('indent'):
                pr['section_headers_indented'] = 1
            if s.get('subs_style') == 'glob_dirs':
                pr['suites_by_glob_of_directories'] = 1
            if s.get('subs_style') == 'glob_files':
                pr['suites_by_glob_of_files'] = 1
        if not h['root']['cases'] and len(h) > 1:
            pr['root_without_cases'] = 1
    hist['probes'] = pr
    hist['armed'] = {c['ending']: 1 for c in ex}
    hist['fired'] = {}


# ----------------------------------------------------------------------------- oracle

_CASE_BEGIN = re.compile(r'^case\s+(\S.*?):\s*$')
IDENT_RE = re.compile(r'\b(PASS|FAIL|XFAIL|XPASS|SKIPPED|VALIDATION_ERROR|HARD_ERROR|INTERNAL_ERROR|SYNTAX_ERROR|'
                      r'FILE_ACCESS_ERROR|PRE_PROCESS_ERROR)\s*$')


def parse_progress(stream, which):
    """Leniently: [(case path, identifier, [marker tags spawned while the case was in progress])]"""
    cases = []
    cur = None
    buf = ''
    for e in stream:
        if e[0] == 'spawn':
            if cur is not None:
                cur[2].append(e[1])
            continue
        if e[1] != which:
            continue
        buf += e[2]
        while '\n' in buf or _CASE_BEGIN.match(buf):
            m = _CASE_BEGIN.match(buf)
            if m and '\n' not in buf:
                # "case  X: " written at begin (no newline yet)
                cur = [m.group(1), None, []]
                cases.append(cur)
                buf = ''
                break
            line, buf = buf.split('\n', 1)
            m2 = re.match(r'^case\s+(\S.*?):\s*(.*)$', line)
            if m2:
                cur = [m2.group(1), None, []]
                cases.append(cur)
                line = m2.group(2)
            mi = IDENT_RE.search(line)
            if mi and cur is not None and cur[1] is None:
                cur[1] = mi.group(1)
                cur = None
    return cases


def oracle(plan, hist):
    V = []

    def bad(rule, expected_, observed, **kw):
        V.append(dict(kw, rule='C16.' + rule, expected=expected_, observed=observed))

    fault = plan['struct_fault']
    if has_double_listing(plan) and not fault:
        first = None
        for variant in ('per_listing', 'first_listing', 'last_listing'):
            V = _judge(plan, hist, expected_cases(plan, variant))
            if not V:
                return V
            first = first if first is not None else V
        return first
    return _judge(plan, hist, expected_cases(plan))


def _judge(plan, hist, ex):
    V = []
    prefix = '..' if plan.get('launch') == 'elsewhere' else ''

    def _P(f):  # the name of a case as the reporters give it: relative to the directory Exactly was started in
        return os.path.normpath(os.path.join(prefix, f))

    def bad(rule, expected_, observed, **kw):
        V.append(dict(kw, rule='C16.' + rule, expected=expected_, observed=observed))

    fault = plan['struct_fault']
    for rep in ('progress', 'junit'):
        r = hist['runs'][rep]
        if r['exception'] or r['hang']:
            bad('returns', 'returns', {'exception': r['exception'], 'hang': r['hang']}, reporter=rep)
            return V
    pg, ju = hist['runs']['progress'], hist['runs']['junit']
    if fault:
        for rep, r in (('progress', pg), ('junit', ju)):
            if r['exit'] != 3:
                bad('invalid_suite.exit_code', 3, r['exit'], reporter=rep, fault=fault)
            if r['n_spawns']:
                bad('invalid_suite.no_case_executed', 0, r['n_spawns'], reporter=rep, fault=fault)
        if pg['stdout'] != 'INVALID_SUITE\n':
            bad('invalid_suite.identifier', 'INVALID_SUITE\n', pg['stdout'][:200], fault=fault)
        if ju['stdout'].strip().startswith('<'):
            bad('invalid_suite.no_junit_document', '', ju['stdout'][:100], fault=fault)
        return V
    # ---- what actually executed: marker history
    want_markers = []
    for c in ex:
        s = plan['hierarchy'][c['suite']]
        if c['marker']:
            if s['setup_marker']:
                want_markers.append('suite-setup-' + c['suite'])
            want_markers.append('mark-' + c['id'])
    for rep, r in (('progress', pg), ('junit', ju)):
        if r['markers'] != want_markers:
            bad('every_case_once_in_order', want_markers, r['markers'], reporter=rep)
        if r['leftover']:
            bad('sandboxes_removed', [], r['leftover'], reporter=rep)
        if not r['cwd_ok'] or not r['environ_ok']:
            bad('process_state_restored', True, {'cwd_ok': r['cwd_ok'], 'environ_ok': r['environ_ok']}, reporter=rep)
    # ---- progress reporter: final identifier and exit code
    all_ok = all(c['ident'] in SUCCESS for c in ex)
    lines = [l for l in pg['stdout'].split('\n') if l.strip()]
    final = lines[-1] if lines else None
    want_final, want_exit = ('OK', 0) if all_ok else ('ERROR', 4)
    if final != want_final or pg['exit'] != want_exit:
        bad('progress.final_verdict', {'identifier': want_final, 'exit': want_exit,
                                       'unsuccessful': [c['file'] + ':' + c['ident'] for c in ex if c['ident'] not in SUCCESS]},
            {'identifier': final, 'exit': pg['exit']})
    # ---- per-case lines (association device; parsed leniently)
    parsed = parse_progress(pg['stream'], 'out')
    if len(parsed) == 0 and ex and re.search(r'^case\b', pg['stdout'], re.M):
        raise kernel.HarnessError('cannot parse the progress lines: %r' % pg['stdout'][:300])
    got = [(os.path.normpath(p[0]), p[1]) for p in parsed]
    want = [(_P(c['file']), c['ident']) for c in ex]
    if [g_[0] for g_ in got] != [w_[0] for w_ in want]:
        bad('progress.cases_named_once_in_order', [w_[0] for w_ in want], [g_[0] for g_ in got])
    elif got != want:
        diff = [(w_[0], w_[1], g_[1]) for w_, g_ in zip(want, got) if w_ != g_]
        bad('case_identifier', [(d[0], d[1]) for d in diff], [(d[0], d[2]) for d in diff])
    else:
        # each marker was spawned while its own case was in progress
        for c, p in zip(ex, parsed):
            mk = [t for t in p[2] if t.startswith('mark-')]
            if mk != (['mark-' + c['id']] if c['marker'] else []):
                bad('marker_inside_its_case', ['mark-' + c['id']] if c['marker'] else [], mk, case=c['file'])
    # ---- JUnit
    if ju['exit'] != 0:
        bad('junit.exit_code', 0, ju['exit'])
    try:
        root = ET.fromstring(ju['stdout'])
    except ET.ParseError as exn:
        bad('junit.document_parses', 'well-formed XML', str(exn) + ': ' + ju['stdout'][:120])
        return V
    suites = [root] if root.tag == 'testsuite' else list(root.iter('testsuite'))
    tcs = [tc for s in suites for tc in s.findall('testcase')]
    names = sorted(os.path.normpath(tc.get('name')) for tc in tcs)
    if names != sorted(_P(c['file']) for c in ex):
        bad('junit.same_cases', sorted(c['file'] for c in ex), names)
        return V
    by_file = {_P(c['file']): c for c in ex}
    doc_order_ = [os.path.normpath(tc.get('name')) for tc in tcs]
    by_elem = {}
    if doc_order_ == [_P(c['file']) for c in ex]:
        by_elem = {id(tc): c for tc, c in zip(tcs, ex)}  # (a file listed twice has one record per processing)

    def model_of(tc):
        return by_elem.get(id(tc)) or by_file[os.path.normpath(tc.get('name'))]

    for s in suites:
        cases = s.findall('testcase')
        n = len(cases)
        if s.get('tests') != str(n):
            bad('junit.tests_attribute', n, s.get('tests'), suite=s.get('name'))
        model_bad = [tc for tc in cases if model_of(tc)['ident'] not in SUCCESS]
        f_e = int(s.get('failures', '0')) + int(s.get('errors', '0'))
        if f_e != len(model_bad):
            bad('junit.failures_plus_errors', {'count': len(model_bad), 'unsuccessful': [
                (x.get('name'), model_of(x)['ident'], model_of(x)['ending']) for x in model_bad]},
                {'failures': s.get('failures'), 'errors': s.get('errors')}, suite=s.get('name'),
                endings=sorted({model_of(x)['ending'] for x in model_bad}))
        for tc in cases:
            c = model_of(tc)
            has = tc.find('failure') is not None or tc.find('error') is not None
            if has != (c['ident'] not in SUCCESS):
                bad('junit.unsuccessful_case_carries_failure_or_error',
                    {'case': c['file'], 'verdict': c['ident'], 'element': c['ident'] not in SUCCESS},
                    {'element': has}, ending=c['ending'])
    # the order of cases in the document is the order of execution
    doc_order = [os.path.normpath(tc.get('name')) for tc in tcs]
    if doc_order != [_P(c['file']) for c in ex]:
        bad('junit.same_order', [c['file'] for c in ex], doc_order)
    # both reporters: same identifiers
    parsed_j = parse_progress(ju['stream'], 'err')
    if parsed_j and [(os.path.normpath(p[0]), p[1]) for p in parsed_j] != got:
        bad('reporters_agree', got, [(os.path.normpath(p[0]), p[1]) for p in parsed_j])
    if not hist['home_unchanged']:
        bad('home_untouched', 'unchanged', 'changed')
    return V


def classify_known(plan, hist, violation, kf):
    return False


def signature(plan, hist):
    h = plan['hierarchy']
    shape = tuple(sorted((s['dir'].count('d'), len(s['cases']), s['style'], s['ref'], s.get('subs_style')) for s in h.values()))
    endings = tuple(sorted(c['ending'] for s in h.values() for c in s['cases']))
    n = sum(len(s['cases']) for s in h.values())
    return n >= 2 or bool(plan['struct_fault']), (shape, endings, plan['struct_fault'])


def sample_view(plan, hist):
    pg, ju = hist['runs']['progress'], hist['runs']['junit']
    return {'expected_cases': [(c['file'], c['ident']) for c in expected_cases(plan)], 'struct_fault': plan['struct_fault'],
            'progress': {'exit': pg['exit'], 'stdout': pg['stdout'][:1500], 'markers': pg['markers']},
            'junit': {'exit': ju['exit'], 'stdout': ju['stdout'][:600]}}


def normalize(plan):
    h = plan['hierarchy']
    if 'root' not in h:
        return None
    keys = set(h)
    reach = set()

    def walk(k):
        if k in reach or k not in h:
            return
        reach.add(k)
        for sk in h[k].get('subs', []):
            walk(sk)

    walk('root')
    for k in list(h):
        h[k]['subs'] = [sk for sk in h[k].get('subs', []) if sk in h]
        h[k].setdefault('cases', [])
    for k in list(h):
        if k not in reach:
            del h[k]
    reach = set()
    walk('root')
    if set(h) != reach:
        return None
    return plan
