"""C01 — Phased execution protocol: fixed order, halt at first failure, cleanup runs.

Workload: generated cases of sim-fault stubs, probe children and real instructions in every phase, the act
phase served by FaultableActor over the real actor; executed at the structured level (processing.Result) and,
for a fraction of runs, through the CLI.  Fault space: §2.4 of DESIGN.md.  Oracle: rules R1-R6 over the
recorded trace, judged against models/protocol.py.
"""
import itertools
import os

from sim import kernel, world as world_mod, patches, host, casegen
from models import protocol as P
from engines import diskmode

PROPERTY = 'C01'
LEVEL = 'fault_enumeration'
EXHAUSTIVE_SWEEP = True
RULE_TEXT = ('runs = deterministic sweep over every (phase step x position 0..2 x fault kind) single fault at shape '
             '(3,3,3,3,3) under status PASS, every step class x kind under FAIL/SKIP and in --act mode, every primary '
             'step class x kind x (cleanup position x cleanup fault kind) pair, fault-free runs at assorted shapes; '
             'then seeded random plans (random shapes 0..3 per phase, stubs/probes/real instructions mixed, several '
             'armed faults, failing probe children, ATC spawn errors). A run is non-trivial if a fault fired or a '
             'complete fault-free execution with >= 1 cleanup instruction was observed; distinct = distinct abstract '
             'signature (status, mode, shape, fired primary (phase, step, position, kind), fired cleanup fault).')
REACH_PROBES = ['real_validation_failure', 'cleanup_prev_SETUP', 'cleanup_prev_ACT', 'cleanup_prev_BEFORE_ASSERT', 'cleanup_prev_ASSERT',
                'double_fault', 'act_mode', 'status_FAIL', 'status_SKIP', 'probe_failure', 'atc_spawn_error',
                'multi_armed', 'cli_entry', 'no_fault_complete', 'layout_sections_in_other_order',
                'layout_section_declared_twice', 'layout_part_in_included_file', 'child_killed_at_timeout'] + diskmode.PROBES

KINDS = {
    'symbols': ['undefined_symbol', 'raise_exc'],
    'pre_sds': ['svh_validation', 'svh_hard', 'raise_hard', 'raise_exc'],
    'post_setup': ['svh_validation', 'svh_hard', 'raise_hard', 'raise_exc'],
    'main_sh': ['sh_hard', 'raise_hard', 'raise_exc'],
    'main_as': ['pfh_fail', 'pfh_hard', 'raise_hard', 'raise_exc'],
    'main_conf': ['svh_validation', 'svh_hard', 'raise_hard', 'raise_exc'],
    'parse': ['parse_exception', 'raise_hard', 'raise_exc'],
    'prepare': ['sh_hard', 'raise_hard', 'raise_exc'],
    'execute': ['eh_hard', 'raise_hard', 'raise_exc'],
    'exe_input': ['exe_input_report', 'raise_hard', 'raise_exc'],
}
EXCS = ['RuntimeError', 'ValueError', 'OSError', 'KeyError', 'AssertionError', 'RecursionError']
CLEANUP_KINDS = ['sh_hard', 'raise_hard', 'raise_exc']
PFX = casegen.PREFIX
REAL_OK = {
    'setup': ['file f{n}.txt = "x"', 'dir d{n}', 'env V{n} = v', 'def string S{n} = s'],
    'before-assert': ['file g{n}.txt = "x"', 'env W{n} = v', 'def string T{n} = s'],
    'assert': ['exists -rel-act .', 'def string U{n} = s'],
    'cleanup': ['file h{n}.txt = "x"', 'def string X{n} = s'],
}


def step_sites(shape):
    """All (id, step, kindclass) single-fault sites of a case of pure stubs with the given shape
    (conf, setup, before-assert, assert, cleanup)."""
    sites = []
    for ph, n in zip(casegen.INSTR_PHASES, shape):
        p = PFX[ph]
        for i in range(n):
            ident = '%s%d' % (p, i)
            if ph == 'conf':
                sites.append((ident, 'main', 'main_conf'))
                continue
            sites.append((ident, 'symbols', 'symbols'))
            sites.append((ident, 'pre_sds', 'pre_sds'))
            if ph != 'cleanup':
                sites.append((ident, 'post_setup', 'post_setup'))
            sites.append((ident, 'main', 'main_as' if ph == 'assert' else 'main_sh'))
    for step in ('parse', 'symbols', 'pre_sds', 'post_setup', 'prepare', 'execute'):
        sites.append(('act', step, step))
    if shape[1] > 0:
        sites.append(('act', 'exe_input', 'exe_input'))  # needs a [setup] stub that installs the faulty stdin
    return sites


def stub_case(shape):
    case = {}
    for ph, n in zip(casegen.INSTR_PHASES, shape):
        case[ph] = [{'k': 'fault', 'id': '%s%d' % (PFX[ph], i)} for i in range(n)]
    case['act'] = {'lines': ['% atc']}
    return case


def _base_plan(seed, tier, case, status='PASS', act_mode=False, faults=(), entry='structured', procs=None, knob=8192,
               sweep=False):
    return {'format': 1, 'property': PROPERTY, 'engine': 'c01', 'run_seed': seed, 'tier': tier,
            'knobs': {'mem_buff_size': knob}, 'entry': entry, 'status': status, 'act_mode': act_mode,
            'case': case, 'procs': procs or {'atc': {'exit': 0, 'stdout': 'o\n'}}, 'faults': list(faults),
            'sweep': sweep}


_SWEEP = {}


def sweep_specs():
    """Deterministic list of sweep specs (independent of the seed)."""
    if 'specs' in _SWEEP:
        return _SWEEP['specs']
    specs = []
    shape = (3, 3, 3, 3, 3)
    sites = step_sites(shape)
    # every single fault under PASS
    for ident, step, kc in sites:
        for kind in KINDS[kc]:
            specs.append((shape, 'PASS', False, [(ident, step, kind)]))
    # every step class x kind under FAIL, SKIP, and --act mode (position 1)
    class_sites = [s for s in sites if s[0] == 'act' or s[0].endswith('1')]
    for status, act_mode in (('FAIL', False), ('SKIP', False), ('PASS', True), ('FAIL', True)):
        for ident, step, kc in class_sites:
            for kind in KINDS[kc]:
                specs.append((shape, status, act_mode, [(ident, step, kind)]))
    # primary x cleanup double faults
    for ident, step, kc in class_sites:
        if ident.startswith('l') and step == 'main':
            continue
        for kind in KINDS[kc]:
            for cpos in range(3):
                for ck in CLEANUP_KINDS:
                    specs.append((shape, 'PASS', False, [(ident, step, kind), ('l%d' % cpos, 'main', ck)]))
    # cleanup fault alone, all statuses/modes
    for status, act_mode in (('PASS', False), ('FAIL', False), ('PASS', True)):
        for cpos in range(3):
            for ck in CLEANUP_KINDS:
                specs.append((shape, status, act_mode, [('l%d' % cpos, 'main', ck)]))
    # the action to check never finishes (killed at the timeout): act/execute fails, under every status and mode
    for status, act_mode in (('PASS', False), ('FAIL', False), ('SKIP', False), ('PASS', True), ('FAIL', True)):
        specs.append((shape, status, act_mode, [('atc', 'execute', 'timeout_kill')]))
        for ck in CLEANUP_KINDS:
            specs.append((shape, status, act_mode, [('atc', 'execute', 'timeout_kill'), ('l1', 'main', ck)]))
    # fault-free at assorted shapes
    for sh in itertools.product((0, 1, 3), repeat=5):
        for status, act_mode in (('PASS', False), ('FAIL', False), ('SKIP', False), ('PASS', True)):
            if sum(sh) % 3 == 0 or status == 'PASS':
                specs.append((sh, status, act_mode, []))
    _SWEEP['specs'] = specs
    return specs


def total_runs(tier):
    n = len(sweep_specs())
    return n + diskmode.n_sweep() + (1200 if tier == 'quick' else 400000)


DISK_SHARE = 0.15  # of the random part: disk-fault plans (engines/diskmode.py)


def make_plan(i, master, tier):
    seed = kernel.run_seed(master, PROPERTY, i)
    specs = sweep_specs()
    if i < len(specs):
        shape, status, act_mode, faults = specs[i]
        rng = kernel.stream(seed, 'gen')
        fl = []
        procs = None
        for ident, step, kind in faults:
            if kind == 'timeout_kill':
                procs = {'atc': {'exit': 0, 'stdout': 'o\n', 'duration': 'inf', 'expect_kill': True, 'straggler': True}}
                continue
            f = {'id': ident, 'step': step, 'kind': kind}
            if kind == 'raise_exc':
                f['exc'] = rng.choice(EXCS)
            fl.append(f)
        return _base_plan(seed, tier, stub_case(shape), status, act_mode, fl, sweep=True,
                          knob=rng.choice([1, 8, 8192]), procs=procs)
    if i < len(specs) + diskmode.n_sweep():
        return diskmode.make_plan(PROPERTY, i - len(specs), seed, tier, sweep=True)
    if kernel.stream(seed, 'workload').random() < DISK_SHARE:
        return diskmode.make_plan(PROPERTY, None, seed, tier, sweep=False)
    return random_plan(seed, tier)


def arm_random_faults(case, procs, fr, has_atc, p_none=0.35):
    """Arms 0..n faults at random sites of the case (stub steps, probe exit codes, ATC spawn error)."""
    faults = []
    mode = fr.random()
    sites = []
    pos = P.index_case(case)
    for ph in casegen.INSTR_PHASES:
        for item in case[ph]:
            if item['k'] == 'fault':
                if ph == 'conf':
                    sites.append((item['id'], 'main', 'main_conf'))
                else:
                    sites.append((item['id'], 'symbols', 'symbols'))
                    sites.append((item['id'], 'pre_sds', 'pre_sds'))
                    if ph != 'cleanup':
                        sites.append((item['id'], 'post_setup', 'post_setup'))
                    sites.append((item['id'], 'main', 'main_as' if ph == 'assert' else 'main_sh'))
                    sites.append((item['id'], 'main', 'main_as' if ph == 'assert' else 'main_sh'))
            elif item['k'] == 'probe' and not item.get('noarm'):
                sites.append((item['id'], 'main', 'probe'))
                sites.append((item['id'], 'main', 'probe'))
    for step in ('parse', 'symbols', 'pre_sds', 'post_setup', 'prepare', 'execute', 'execute'):
        sites.append(('act', step, step))
    if any(it['k'] == 'fault' for it in case['setup']):
        sites.append(('act', 'exe_input', 'exe_input'))
    if has_atc:
        sites.append(('atc', 'execute', 'atc_spawn'))

    def arm(site):
        ident, step, kc = site
        if kc == 'probe':
            if fr.random() < 0.25:
                # the child never finishes: killed at the (default) timeout - an error of that step, never a FAIL
                procs[ident] = dict(procs.get(ident, {}), duration='inf', expect_kill=True, straggler=True)
            else:
                procs[ident] = dict(procs.get(ident, {}), exit=fr.choice([1, 2, 3, 127, 255]))
            return
        if kc == 'atc_spawn':
            if fr.random() < 0.35:
                procs['atc'] = dict(procs['atc'], duration='inf', expect_kill=True, straggler=True)
            else:
                procs['atc'] = dict(procs['atc'], spawn_error=fr.choice(['ENOENT', 'EACCES']))
            return
        kind = fr.choice(KINDS[kc])
        f = {'id': ident, 'step': step, 'kind': kind}
        if kind == 'raise_exc':
            f['exc'] = fr.choice(EXCS)
        if not any(x['id'] == ident and x['step'] == step for x in faults):
            faults.append(f)

    if mode >= p_none and sites:
        arm(fr.choice(sites))
        if fr.random() < 0.4:
            cl = [s for s in sites if s[0].startswith('l') and s[1] == 'main']
            if cl:
                arm(fr.choice(cl))
        if fr.random() < 0.25:
            for _ in range(fr.choice([1, 2, 3])):
                arm(fr.choice(sites))
    return faults


def random_plan(seed, tier):
    g = kernel.stream(seed, 'gen')
    fr = kernel.stream(seed, 'faults')
    kn = kernel.stream(seed, 'knobs')
    shape = tuple(g.choice([0, 1, 2, 3]) for _ in range(5))
    status = g.choices(['PASS', 'FAIL', 'SKIP'], [60, 28, 12])[0]
    act_mode = g.random() < 0.15
    procs = {'atc': {'exit': g.choice([0, 0, 1, 7, 255]), 'stdout': 'atc-out\n', 'stderr': g.choice(['', 'e\n'])}}
    case = {}
    n = 0
    for ph, cnt in zip(casegen.INSTR_PHASES, shape):
        items = []
        for j in range(cnt):
            n += 1
            ident = '%s%d' % (PFX[ph], j)
            r = g.random()
            if ph == 'conf' or r < 0.6:
                items.append({'k': 'fault', 'id': ident})
            elif r < 0.85:
                form = g.choice(['%', 'run', '$'] + (['file'] if ph != 'assert' else []))
                items.append({'k': 'probe', 'id': ident, 'form': form})
                procs[ident] = {'exit': 0, 'stdout': g.choice(['', 'x\n'])}
            elif r < 0.95 or ph == 'conf':
                items.append({'k': 'real', 'text': g.choice(REAL_OK[ph]).format(n=n)})
            else:
                # a real instruction that fails validation (no stub involved): missing home file / undefined symbol
                # (a missing file named by an absolute path depends on no directory of the case: checked before the
                # sandbox exists, like a file in the home directory)
                v = g.choice([('copy no-such-file-%d' % n, 'pre_sds', 'svh_validation'),
                              ('copy /no/such/dir/file-%d' % n, 'pre_sds', 'svh_validation'),
                              ('file q%d.txt = -contents-of /no/such/dir/file-%d' % (n, n), 'pre_sds', 'svh_validation'),
                              ('def string RV%d = @[UNDEFINED_%d]@' % (n, n), 'symbols', 'undefined_symbol')])
                items.append({'k': 'real', 'id': ident, 'text': v[0], 'vfail': {'step': v[1], 'kind': v[2]}})
        case[ph] = items
    act_kind = g.choices(['sys', 'shell', 'empty'], [70, 20, 10])[0]
    case['act'] = {'lines': {'sys': ['% atc'], 'shell': ['$ atc arg'], 'empty': []}[act_kind]}
    faults = arm_random_faults(case, procs, fr, act_kind != 'empty')
    entry = 'cli' if g.random() < 0.2 else 'structured'
    if any(it.get('vfail') for ph in casegen.INSTR_PHASES for it in case[ph]):
        entry = 'structured'  # a real validation failure is attributed by the line named in the structured result
    plan = _base_plan(seed, tier, case, status, act_mode, faults, entry, procs,
                      knob=kn.choice([1, 2, 3, 5, 8, 13, 64, 4096, 8192]))
    # where the lines stand in the file(s) is no business of the protocol: sections declared in any order, declared
    # twice, parts of them in included files
    lay = kernel.stream(seed, 'layout')
    if lay.random() < 0.5:
        case['layout'] = casegen.random_layout(lay)
    return plan


# ----------------------------------------------------------------------------- execute

def execute(plan, scratch):
    if plan.get('mode') == 'disk':
        return diskmode.execute(plan, scratch)
    w = world_mod.World(os.path.join(scratch, 'w'))
    text = casegen.write_case(w, plan['case'], plan['status'])
    sim = kernel.Sim(plan, w)
    with patches.installed(sim):
        if plan['entry'] == 'cli':
            argv = (['--act'] if plan['act_mode'] else []) + ['t.case']
            res = host.run_cli(sim, argv)
        else:
            res = host.run_structured(sim, 'home/t.case', keep=False, act_mode=plan['act_mode'])
        leftover = w.tmp_entries()
        digest = sim.digest()
    hist = {
        'text': text, 'result': res,
        'trace': [{'id': t['id'], 'step': t['step'], 'seq': t['seq'],
                   'prev': (t['extra'] or {}).get('previous_phase') if isinstance(t['extra'], dict) else None,
                   'sbx': t['n_sandboxes']}
                  for t in sim.trace],
        'spawns': [{'tag': s['tag'], 'seq': s['seq'], 'error': s.get('spawn_error'), 'exit': s['exit'],
                    'killed': s['killed'], 'timed_out': bool(s.get('timed_out')), 'sbx': None} for s in sim.spawns],
        'fired': sim.fired, 'n_sandboxes': len(sim.sandboxes), 'leftover': leftover,
        'digest': digest, 'sim_seconds': sim.clock.advanced,
        'orphans': [c.tag for c in sim.children if c.returncode is None],
        'out_of_place': sim.counts.get('stub_out_of_place', 0),
    }
    _annotate(plan, hist)
    w.destroy()
    return hist


def _armed(plan):
    """All armed faults, including the ones realised by child behaviour."""
    out = [dict(f) for f in plan['faults']]
    pos = P.index_case(plan['case'])
    for ident, b in sorted(plan['procs'].items()):
        if ident in pos and b.get('expect_kill'):
            out.append({'id': ident, 'step': 'main', 'kind': 'timeout_kill', 'real': True})
        elif ident in pos and b.get('spawn_error'):
            out.append({'id': ident, 'step': 'main', 'kind': 'spawn_error', 'real': True})
        elif ident in pos and b.get('exit', 0) != 0:
            item = plan['case'][pos[ident][0]][pos[ident][1]]
            if item['k'] == 'probe' and not item.get('ignore'):
                out.append({'id': ident, 'step': 'main', 'kind': 'exit_nonzero', 'real': True})
    for ph in casegen.INSTR_PHASES:
        for item in plan['case'].get(ph) or []:
            if item.get('mfail'):
                # a real instruction whose main step fails by itself (e.g. `cd` to a directory that does not exist); it
                # leaves no event: it is taken to have fired when nothing else did (plans arm nothing else beside it)
                out.append({'id': item['id'], 'step': 'main', 'kind': 'real_hard_error', 'real': True,
                            'by_position': True})
            if item.get('vfail'):
                out.append({'id': item['id'], 'step': item['vfail']['step'], 'kind': item['vfail']['kind'], 'real': True,
                            'by_outcome': True})
    atc = plan['procs'].get('atc', {})
    if atc.get('spawn_error') and plan['case'].get('act', {}).get('lines'):
        out.append({'id': 'atc', 'step': 'execute', 'kind': 'spawn_error', 'real': True})
    elif atc.get('expect_kill') and plan['case'].get('act', {}).get('lines'):
        out.append({'id': 'atc', 'step': 'execute', 'kind': 'timeout_kill', 'real': True})
    return out


def _fired(plan, hist):
    """Fired faults in order of occurrence: stub faults from the log, real ones from the spawn history."""
    out = [dict(f) for f in hist.get('fired_log', hist['fired'])]
    armed = {(f['id'], f['step']): f for f in _armed(plan) if f.get('real')}
    for s in hist['spawns']:
        f = armed.get((s['tag'], 'main')) or (armed.get(('atc', 'execute')) if s['tag'] == 'atc' else None)
        if f is None:
            continue
        if f['kind'] == 'exit_nonzero' and s['exit'] not in (0, None):
            out.append({'id': f['id'], 'step': f['step'], 'kind': f['kind'], 'seq': s['seq'], 'real': True})
        if f['kind'] == 'timeout_kill' and (s.get('killed') or s.get('timed_out')):
            out.append({'id': f['id'], 'step': f['step'], 'kind': f['kind'], 'seq': s['seq'], 'real': True})
        if f['kind'] == 'spawn_error' and s['error']:
            out.append({'id': f['id'], 'step': f['step'], 'kind': f['kind'], 'seq': s['seq'], 'real': True})
    # real validation failures leave no event: they are attributed by the line the reported failure names
    res = hist.get('result') or {}
    if res.get('status') == 'VALIDATION_ERROR' and res.get('line') is not None:
        for f in _armed(plan):
            if f.get('by_outcome') and _same_location(plan['case'], plan['status'], f['id'], res):
                last = max([e['seq'] for e in hist['trace']] + [s_['seq'] for s_ in hist['spawns']] + [0])
                out.append({'id': f['id'], 'step': f['step'], 'kind': f['kind'], 'seq': last + 1, 'real': True})
    if not out and plan.get('status') != 'SKIP':
        for f in _armed(plan):
            if f.get('by_position'):
                last = max([e['seq'] for e in hist['trace']] + [s_['seq'] for s_ in hist['spawns']] + [0])
                out.append({'id': f['id'], 'step': f['step'], 'kind': f['kind'], 'seq': last + 1, 'real': True})
                break
    out.sort(key=lambda f: f['seq'])
    return out


def _same_location(case, status, ident, res) -> bool:
    """Does the source location named by the result (line, and file when known) hold the given instruction?"""
    loc = casegen.location_of_item(case, status, ident)
    if loc is None:
        return False
    if res.get('file') is not None and res['file'] != loc[0]:
        return False
    return res.get('line') == loc[1]


def _annotate(plan, hist):
    fired = _fired(plan, hist)
    hist['fired_all'] = fired
    probes = {}
    armed = {}
    firedc = {}
    for f in _armed(plan):
        armed[f['kind']] = armed.get(f['kind'], 0) + 1
    for f in fired:
        firedc[f['kind']] = firedc.get(f['kind'], 0) + 1
    for t in hist['trace']:
        if t['prev']:
            probes['cleanup_prev_' + t['prev']] = 1
    prim = [f for f in fired if not _is_cleanup_main(plan, f)]
    cl = [f for f in fired if _is_cleanup_main(plan, f)]
    if prim and cl:
        probes['double_fault'] = 1
    if plan['act_mode']:
        probes['act_mode'] = 1
    probes['status_' + plan['status']] = 1
    if any(f['kind'] == 'timeout_kill' for f in fired):
        probes['child_killed_at_timeout'] = 1
    if any(f['kind'] == 'exit_nonzero' for f in fired):
        probes['probe_failure'] = 1
    if any(f['kind'] == 'spawn_error' for f in fired):
        probes['atc_spawn_error'] = 1
    if any(f.get('real') and f['kind'] in ('svh_validation', 'undefined_symbol') for f in fired):
        probes['real_validation_failure'] = 1
    if len(_armed(plan)) > 2:
        probes['multi_armed'] = 1
    if plan['entry'] == 'cli':
        probes['cli_entry'] = 1
    if not fired and plan['status'] != 'SKIP':
        probes['no_fault_complete'] = 1
    lay = plan['case'].get('layout') or {}
    if lay.get('order'):
        probes['layout_sections_in_other_order'] = 1
    if lay.get('split'):
        probes['layout_section_declared_twice'] = 1
    if lay.get('include'):
        probes['layout_part_in_included_file'] = 1
    hist['probes'] = probes
    hist['armed'] = armed
    hist['fired_log'] = hist['fired']
    hist['fired'] = firedc


def _is_cleanup_main(plan, f):
    if f['id'] in ('act', 'atc'):
        return False
    pos = P.index_case(plan['case'])
    return pos[f['id']][0] == 'cleanup' and f['step'] == 'main'


# ----------------------------------------------------------------------------- oracle

IDENT_CODE = {'PASS': 0, 'SKIPPED': 0, 'FAIL': 32, 'XFAIL': 33, 'XPASS': 33, 'SYNTAX_ERROR': 65,
              'VALIDATION_ERROR': 65, 'HARD_ERROR': 128, 'INTERNAL_ERROR': 129}

STEP_WORDS = {'symbols': 'symbols', 'pre_sds': 'pre-sds', 'post_setup': 'post-setup', 'main': 'main', 'exe_input': 'exe-input',
              'parse': 'parse', 'prepare': 'prepare', 'execute': 'execute'}


def oracle(plan, hist):
    if plan.get('mode') == 'disk':
        return diskmode.oracle_c01(plan, hist)
    if hist.get('out_of_place'):
        return [{'rule': 'C01.instruction_runs_in_the_phase_it_is_written_in', 'expected': 0,
                 'observed': {'instructions that ran as part of another phase': hist['out_of_place']}}]
    V = []

    def bad(rule, expected, observed):
        V.append({'rule': 'C01.' + rule, 'expected': expected, 'observed': observed})

    case, status, act_mode = plan['case'], plan['status'], plan['act_mode']
    res = hist['result']
    if res.get('hang') or res.get('escape') or res.get('exception'):
        bad('R0.returns', 'execute returns a result', {k: res.get(k) for k in ('hang', 'escape', 'exception')})
        return V
    pos = P.index_case(case)
    fired = hist['fired_all']
    armed = _armed(plan)
    trace = hist['trace']
    spawns = hist['spawns']
    primary = next((f for f in fired if not _is_cleanup_main(plan, f)), None)
    cleanup_f = next((f for f in fired if _is_cleanup_main(plan, f)), None)
    ploc = P.locate(case, primary) if primary else None

    # ---- R1 validation before main: first symbols event of every instruction precedes the first pre_sds
    # event of any instruction; both precede every effectful/post-setup event
    first = {}
    for t in trace:
        first.setdefault((t['id'], t['step']), t['seq'])
    sym = [s for (i, st), s in first.items() if st == 'symbols']
    pre = [s for (i, st), s in first.items() if st == 'pre_sds']
    eff = [t['seq'] for t in trace if t['step'] in ('main', 'prepare', 'execute', 'post_setup')
           and not t['id'].startswith('c')]
    eff += [s['seq'] for s in spawns]
    if sym and pre and max(sym) > min(pre):
        bad('R1.symbols_before_pre_sds', 'all symbol validation before any pre-sandbox validation',
            {'last_symbols_seq': max(sym), 'first_pre_sds_seq': min(pre)})
    if eff and (sym or pre) and max(sym + pre) > min(eff):
        bad('R1.validation_before_main', 'all symbols/pre-sds validation before any main/prepare/execute/post-setup',
            {'last_validation_seq': max(sym + pre), 'first_effect_seq': min(eff)})
    # file order inside a validation step of one phase
    for step in ('symbols', 'pre_sds', 'post_setup'):
        for ph in casegen.INSTR_PHASES[1:]:
            seqs = [first[(it['id'], step)] for it in case[ph] if it['k'] == 'fault' and (it['id'], step) in first]
            if seqs != sorted(seqs):
                bad('R2.file_order_in_validation', 'instructions of [%s] validated (%s) in file order' % (ph, step),
                    seqs)

    # ---- "no armed fault strictly before the first fired one" (halt + order + nothing skipped)
    floc_first = P.locate(case, fired[0]) if fired else None
    for g in armed:
        gloc = P.locate(case, g)
        if any(f['id'] == g['id'] and f['step'] == g['step'] for f in fired):
            continue
        if P.on_success_path(gloc, status, act_mode, case) is not True:
            continue
        if fired:
            if P.precedes(gloc, floc_first):
                bad('R4.skipped_or_reordered_step',
                    'step %s/%s (armed) runs before %s/%s' % (g['id'], g['step'], fired[0]['id'], fired[0]['step']),
                    'it never ran before the first failure')
        else:
            if True:
                bad('R3.step_not_executed', 'step %s/%s is executed when nothing fails' % (g['id'], g['step']),
                    'armed fault never fired')

    # ---- R2/R3/R4: the effectful events (main of stubs, probe spawns, act prepare/execute, ATC spawn),
    # exactly once each, in protocol order, nothing after the first failure
    ids_cleanup = {it['id'] for it in case['cleanup'] if 'id' in it}
    obs = []
    for t in trace:
        if t['step'] in ('main', 'prepare', 'execute'):
            obs.append((t['seq'], (t['step'], t['id'])))
    for s in spawns:
        obs.append((s['seq'], ('spawn', s['tag'])))
    obs.sort()
    obs_main = [e for _, e in obs if e[1] not in ids_cleanup]
    obs_cleanup = [e for _, e in obs if e[1] in ids_cleanup]
    has_atc = bool(case.get('act', {}).get('lines'))
    atc_beh = plan['procs'].get('atc', {})
    exp_main, sandbox = P.expected_effects(case, status, act_mode, ploc, has_atc_process=has_atc,
                                           primary_is_spawn_error=bool(primary and primary['id'] == 'atc'))
    if obs_main != [tuple(e) for e in exp_main]:
        bad('R2R3R4.effect_sequence', exp_main, obs_main)

    # ---- R5 cleanup exactly once iff the sandbox exists, told the previous phase
    if (hist['n_sandboxes'] > 0) != sandbox:
        bad('R5.sandbox_existence', {'sandbox_expected': sandbox}, {'resolver_calls': hist['n_sandboxes']})
    if hist['n_sandboxes'] > 1:
        bad('R5.one_sandbox', 1, hist['n_sandboxes'])
    failing_cleanup = {g['id'] for g in armed if _is_cleanup_main(plan, g)}
    exp_cleanup = P.expected_cleanup(case, hist['n_sandboxes'] > 0, failing_cleanup)
    if obs_cleanup != [tuple(e) for e in exp_cleanup]:
        bad('R5.cleanup_exactly_once', exp_cleanup, obs_cleanup)
    if hist['n_sandboxes'] > 0 and sandbox:
        want_prev = P.previous_phase(ploc, act_mode)
        got_prev = sorted({str(t['prev']) for t in trace if t['id'] in ids_cleanup and t['step'] == 'main'})
        if got_prev and got_prev != [want_prev]:
            bad('R5.previous_phase', want_prev, got_prev)
    if hist['leftover']:
        pass  # sandbox removal belongs to C04

    # ---- R6 outcome
    pcls = P.class_of(primary, ploc[1]) if primary else None
    ccls = P.class_of(cleanup_f, 'cleanup') if cleanup_f else None
    acceptable = P.acceptable_statuses(status, pcls, ccls)
    if plan['entry'] == 'cli':
        out = res.get('stdout', '')
        err = res.get('stderr', '')
        completes = not fired
        if act_mode and completes and status != 'SKIP':
            # --act passes the ATC through (C02 judges the details); here: exit code is the ATC's
            want = plan['procs'].get('atc', {}).get('exit', 0) if has_atc else 0
            if res['exit'] != want:
                bad('R6.cli_act_exit', want, res['exit'])
        else:
            if act_mode:
                idents = [l for l in (err + '\n' + out).split('\n') if l in IDENT_CODE]
                ident = idents[0] if len(idents) == 1 else repr(idents)
            else:
                ident = out.strip()
            if ident not in acceptable:
                bad('R6.status', sorted(acceptable), ident)
            elif res['exit'] != IDENT_CODE.get(ident):
                bad('R6.cli_exit_code', IDENT_CODE.get(ident), res['exit'])
    else:
        st = res['status']
        if st not in acceptable:
            bad('R6.status', sorted(acceptable), st)
        else:
            # the step named is the step of the fault whose class was reported
            cands = []
            for f, cls, loc in ((primary, pcls, ploc), (cleanup_f, ccls, P.locate(case, cleanup_f) if cleanup_f else None)):
                if f is None:
                    continue
                c = 'XFAIL' if (cls == 'FAIL' and status == 'FAIL') else cls
                if c == st:
                    cands.append((f, loc))
            if fired and res.get('step') is not None:
                ok = False
                for f, loc in cands:
                    phase_ok = res.get('step_phase') == loc[1]
                    word = STEP_WORDS.get(f['step'], f['step'])
                    step_ok = word in (res.get('step_name') or '')
                    line_ok = True
                    if f['id'] not in ('act', 'atc') and res.get('line') is not None:
                        line_ok = _same_location(case, status, f['id'], res)
                    if phase_ok and step_ok and line_ok:
                        ok = True
                if not ok:
                    bad('R6.failing_step_named',
                        [{'id': f['id'], 'step': f['step'], 'phase': loc[1],
                          'line': casegen.line_of_item(case, status, f['id'])} for f, loc in cands],
                        {'phase': res.get('step_phase'), 'step': res.get('step_name'), 'line': res.get('line')})
            elif fired and res.get('step') is None:
                bad('R6.failing_step_named', 'a failing step is named', None)
        # ATC outcome present iff act execute completed
        if has_atc and res.get('has_atc_outcome') is not None and status != 'SKIP':
            completed = ('spawn', 'atc') in obs_main and not atc_beh.get('spawn_error') and not atc_beh.get('expect_kill')
            if bool(res['has_atc_outcome']) != bool(completed):
                bad('R6.atc_outcome_present_iff_executed', completed, res['has_atc_outcome'])
            elif completed and res.get('atc_exit') != atc_beh.get('exit', 0):
                bad('R6.atc_exit_code', atc_beh.get('exit', 0), res.get('atc_exit'))
    if hist['orphans']:
        bad('R0.orphan_children', [], hist['orphans'])
    return V


def signature(plan, hist):
    if plan.get('mode') == 'disk':
        return diskmode.signature(plan, hist)
    fired = hist['fired_all']
    shape = tuple(len(plan['case'][ph]) for ph in casegen.INSTR_PHASES)
    pos = P.index_case(plan['case'])

    def sig(f):
        if f['id'] in ('act', 'atc'):
            return ('act', f['step'], 0, f['kind'])
        ph, i = pos[f['id']]
        return (ph, f['step'], i, f['kind'])

    prim = next((f for f in fired if not _is_cleanup_main(plan, f)), None)
    cl = next((f for f in fired if _is_cleanup_main(plan, f)), None)
    nontrivial = bool(fired) or (plan['status'] != 'SKIP' and len(plan['case']['cleanup']) > 0)
    return nontrivial, (plan['status'], plan['act_mode'], plan['entry'], shape,
                        sig(prim) if prim else None, sig(cl) if cl else None)


def sample_view(plan, hist):
    if plan.get('mode') == 'disk':
        return diskmode.sample_view(plan, hist)
    return {'case_text': hist['text'], 'result': {k: hist['result'].get(k) for k in
                                                  ('status', 'step', 'line', 'exit', 'stdout')},
            'trace': [(t['id'], t['step'], t['prev']) for t in hist['trace']],
            'spawns': [(s['tag'], s['exit'], s['error']) for s in hist['spawns']],
            'fired': [(f['id'], f['step'], f['kind']) for f in hist['fired_all']]}


def normalize(plan):
    """After a shrinking edit: drop faults/behaviours that refer to instructions that no longer exist."""
    pos = P.index_case(plan['case'])
    plan['faults'] = [f for f in plan['faults'] if f['id'] in pos or f['id'] == 'act']
    plan['procs'] = {k: v for k, v in plan['procs'].items() if k in pos or k == 'atc'}
    if 'atc' not in plan['procs']:
        plan['procs']['atc'] = {'exit': 0}
    for ph in casegen.INSTR_PHASES:
        plan['case'].setdefault(ph, [])
    plan['case'].setdefault('act', {'lines': ['% atc']})
    return plan
