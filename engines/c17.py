"""C17 — Cases are independent; suite contents apply alike standalone and in a suite run.

The shared resource is the interpreter's global state (cwd, os.environ, the predefined-symbol table, the execution
configuration object, module state).  The "crash" of this setting is a case that dies at an arbitrary step after
having changed settings.  Workload: a suite of 2..6 cases where disturbers change everything they can and then end
in every way, and observers look; the suite file (and a sub-suite) supplies case-phase contents for a random subset
of phases and optionally a preprocessor.  Every plan is executed as (a) `exactly suite ROOT`, (b) the same with
the listing order reversed / permuted, (c) each case alone with `--suite ROOT`, (d) each case alone beside a copy of
the suite file named exactly.suite, (e) the sub-suite's case with the sub-suite's file - all in one interpreter, so
that (c)-(e) are themselves a history.
"""
import copy
import os
import re

from sim import kernel, world as world_mod, patches, host, casegen
from models import protocol as P, settings as S
from engines import c01, c11

PROPERTY = 'C17'
LEVEL = 'exploration'
ISOLATE = True  # every plan runs in a forked child: interpreter-global state cannot leak between plans
RULE_TEXT = ('runs = seeded random suites of 2..6 cases (disturbers: env in both sets, cd deep into the sandbox, timeout '
             '1|none, def of S1..S3, files in act/ and tmp/, then an ending from {pass, FAIL, HARD_ERROR, exception at a '
             'random step, timeout of a stalled child, failing cleanup, validation error}; observers: probe children in '
             'every phase, an ATC, settings-recording stubs, a def of the same names, a reference to a symbol only a '
             'disturber defined), a suite file and a sub-suite that supply contents for random subsets of phases and '
             'optionally a preprocessor. Each plan = 2 suite runs (listing order and a permutation) + every case alone '
             'with --suite + every case alone beside exactly.suite (+ the sub-suite case). Non-trivial = at least one '
             'disturber ran before an observer in one of the runs; distinct = (case kinds and endings in order, suite '
             'phases, sub-suite phases, preprocessor).')
REACH_PROBES = ['suite_given_while_another_default_suite_stands_beside_the_case', 'launched_from_another_directory', 'case_files_are_symbolic_links', 'act_contents_without_header', 'case_with_own_conf_status', 'case_with_invalid_value_for_suite_instruction', 'stdin_disturbance',
                'preprocessor_fails_for_one_case', 'suite_conf_status', 'suite_conf_actor', 'disturber_before_observer', 'disturber_ended_by_exception', 'disturber_ended_by_timeout',
                'disturber_ended_by_hard_error', 'disturber_cannot_start_a_program_that_later_cases_start', 'disturber_failing_cleanup', 'observer_foreign_symbol_reference',
                'observer_same_symbol_names', 'suite_phase_setup', 'suite_phase_before_assert', 'suite_phase_assert',
                'suite_phase_cleanup', 'sub_suite_case', 'suite_preprocessor', 'mode_suite_run', 'mode_permuted',
                'mode_explicit_suite_option', 'mode_beside_exactly_suite', 'timeout_none_disturbance',
                'env_act_set_disturbance', 'cd_disturbance']

PHASES = ['setup', 'before-assert', 'assert', 'cleanup']
PFX = casegen.PREFIX
DISTURBANCES = [
    ('env V1 = leak', ['set', None, 'V1', 'leak']),
    ('env -of act V2 = leak2', ['set', 'act', 'V2', 'leak2']),
    ('env -of !act V3 = "x${SIMBASE_A}"', ['set', '!act', 'V3', 'x${SIMBASE_A}']),
    ('env unset SIMBASE_B', ['unset', None, 'SIMBASE_B']),
    ('dir -rel-act dd', ['noop']),
    ('cd -rel-act dd', ['cd', 'act/dd', '-rel-act dd']),
    ('cd -rel-tmp .', ['cd', 'tmp', '-rel-tmp .']),
    ('timeout = 3', ['timeout', 3]),
    ('timeout = none', ['timeout', None]),
    ('def string S1 = s1', ['noop']),
    ('def string S2 = s2', ['noop']),
    ('def string D_ONLY = d', ['noop']),
    ('file -rel-tmp junk.txt = "j"', ['noop']),
    ('file -rel-act junk-act.txt = "j"', ['noop']),
    ('stdin = "leaked-stdin"', ['noop']),
]
ENDS = ['pass', 'pass', 'fail', 'hard', 'timeout', 'cleanupfail', 'exception', 'validation', 'cannot_start']


SHARED_TOOL = 'shared-tool'


def caseline(cid):
    """1..3, different for neighbouring cases"""
    return (sum(ord(ch) for ch in cid) % 3) + 1


def gen_case(g, cid, force_kind=None):
    kind = force_kind or g.choice(['disturber', 'observer', 'observer'])
    case = {'conf': [], 'setup': [], 'before-assert': [], 'assert': [], 'cleanup': [], 'act': {'lines': ['%% %s-atc' % cid]}}
    procs = {'%s-atc' % cid: {'exit': 0}}
    faults = []
    n = [0]

    def probe(ph, observe=False):
        n[0] += 1
        ident = '%s-%s%d' % (cid, PFX[ph], n[0])
        procs[ident] = {'exit': 0}
        if observe:
            procs[ident]['observe'] = ['sbx']
        return {'k': 'probe', 'id': ident, 'form': g.choice(['%', '%', 'run', '$'])}

    def stub(ph):
        n[0] += 1
        return {'k': 'fault', 'id': '%s%s%d' % (PFX[ph], cid, n[0])}

    # every case includes the same file from [setup]; the file opens a further phase ([cleanup])
    case['setup'].append({'k': 'real', 'text': 'including common.xly', 'fx': [['noop']]})
    case['setup'].append({'k': 'real', 'text': 'def string CASEVAL = val-%s' % cid, 'fx': [['noop']]})
    case['setup'].append({'k': 'real', 'text': 'def string CASELINE = %d' % caseline(cid), 'fx': [['noop']]})
    case['setup'].append(probe('setup', observe=True))
    # symbols of this case only, referenced from values of many types: what a parsed value says it refers to is that
    # value's own business (a reference that leaks into the value of a later case is undefined there)
    own = 'OWN_%s' % cid.upper()
    for text in ('def string %s = own-%s' % (own, cid),
                 'def list OWN_LIST = @[%s]@ second' % own,
                 'def files-condition OWN_FC = { @[%s]@ : type file }' % own,
                 'def file-matcher OWN_FM = name @[%s]@ && type file' % own,
                 'def text-matcher OWN_SM = equals @[%s]@' % own,
                 'def files-source OWN_FS = { file @[%s]@ = "contents" }' % own,
                 'def text-transformer OWN_ST = replace a @[%s]@' % own,
                 'def program OWN_PGM = %% own-program @[%s]@' % own,
                 'def text-source OWN_TS = "text with @[%s]@"' % own):
        case['setup'].append({'k': 'real', 'text': text, 'fx': [['noop']]})
    end = 'pass'
    if kind == 'disturber':
        picks = sorted(g.sample(range(len(DISTURBANCES)), g.randint(1, 7)))
        texts = [DISTURBANCES[i][0] for i in picks]
        if 'cd -rel-act dd' in texts and 'dir -rel-act dd' not in texts:
            picks = [i for i in picks if DISTURBANCES[i][0] != 'cd -rel-act dd']
        for i in picks:
            text, fx = DISTURBANCES[i]
            case['setup'].append({'k': 'real', 'text': text, 'fx': [fx]})
        case['setup'].append(probe('setup'))
        end = g.choice(ENDS)
    else:
        case['setup'].append({'k': 'real', 'text': 'def string S1 = mine', 'fx': [['noop']]})
        case['setup'].append({'k': 'real', 'text': 'def string S2 = mine2', 'fx': [['noop']]})
        case['setup'].append(stub('setup'))
        if g.random() < 0.3:
            end = 'foreign_symbol'
    case['before-assert'].append(probe('before-assert'))
    # every case runs the same program (named by the case): in a case that ends 'cannot_start' the OS refuses to start
    # it (not found / not executable there and then) - which is nobody's business but that case's
    case['before-assert'].append({'k': 'probe', 'id': SHARED_TOOL, 'form': '%', 'args': cid})
    procs[SHARED_TOOL] = {'exit': 0}
    case['assert'].append(stub('assert'))
    case['assert'].append(probe('assert'))
    case['cleanup'].append(probe('cleanup'))
    if end == 'fail':
        case['assert'].append({'k': 'real', 'text': 'exit-code == 99', 'fx': [['noop']], 'fails': 'FAIL'})
    elif end == 'hard':
        it = probe('before-assert')
        procs[it['id']] = {'exit': 3}
        case['before-assert'].append(it)
    elif end == 'timeout':
        it = probe('before-assert')
        procs[it['id']] = {'exit': 0, 'duration': 'inf', 'expect_kill': True}
        case['before-assert'].append({'k': 'real', 'text': 'timeout = 2', 'fx': [['timeout', 2]]})
        case['before-assert'].append(it)
    elif end == 'cannot_start':
        procs[SHARED_TOOL] = {'exit': 0, 'spawn_error': g.choice(['ENOENT', 'EACCES', 'ENOEXEC'])}
    elif end == 'cleanupfail':
        it = probe('cleanup')
        procs[it['id']] = {'exit': 3}
        case['cleanup'].append(it)
    elif end == 'exception':
        ph = g.choice(PHASES)
        st = stub(ph)
        case[ph].append(st)
        kind_ = 'pfh_hard' if ph == 'assert' and g.random() < 0.3 else 'raise_exc'
        faults.append({'id': st['id'], 'step': 'main', 'kind': kind_, 'exc': g.choice(c01.EXCS)})
    elif end == 'validation':
        case['assert'].append({'k': 'real', 'text': 'exit-code == notAnInteger', 'fx': [['noop']], 'invalid': True})
    elif end == 'foreign_symbol':
        case['cleanup'].append({'k': 'real', 'text': 'file r.txt = @[D_ONLY]@', 'fx': [['noop']], 'invalid': True})
    # the case's own [conf]: must apply to this case only
    own_status = g.choice([None, None, None, 'FAIL', 'SKIP'])
    if own_status:
        case['conf'].append({'k': 'real', 'text': 'status = %s' % own_status})
    # a symbol that a suite-supplied [assert] instruction needs as an integer: one case in a while defines a non-integer
    bad_int = g.random() < 0.12
    # (the value is reached through a second symbol: everything a reference reaches indirectly must be a string where an
    # integer is expected - in one case in a while the inner symbol is a list)
    inner_is_list = bad_int and g.random() < 0.5
    case['setup'].append({'k': 'real', 'text': 'def %s CASEINNER = %s' % (('list', '0') if inner_is_list else
                                                                         ('string', 'notAnInteger' if bad_int else '0')),
                          'fx': [['noop']]})
    case['setup'].append({'k': 'real', 'text': 'def string CASEINT = @[CASEINNER]@', 'fx': [['noop']]})
    # ... and one that a suite-supplied `stdout` assertion (a composite of parts, each with a validator) needs
    bad_int2 = (not bad_int) and g.random() < 0.12
    case['setup'].append({'k': 'real', 'text': 'def string CASEINT2 = %s' % ('notAnInteger' if bad_int2 else '0'), 'fx': [['noop']]})
    bad_int = bad_int or bad_int2
    # a per-case value for a `timeout` instruction that the suite supplies (parsed once, shared by all cases)
    tv = g.choice([3, 7, 50, 600])
    case['setup'].append({'k': 'real', 'text': 'def string CASETIMEOUT = %d' % tv, 'fx': [['noop']]})
    if g.random() < 0.3:
        # the act contents stand first in the file, without a header (act is the default phase of EVERY case file,
        # whatever phase the previous case of the run ended its parsing in)
        case['layout'] = {'act_first_without_header': True}
    return {'id': cid, 'kind': kind, 'end': end, 'case': case, 'procs': procs, 'faults': faults, 'own_status': own_status,
            'bad_int': bad_int, 'timeout_value': tv}


def total_runs(tier):
    return 350 if tier == 'quick' else 12000


def make_plan(i, master, tier):
    seed = kernel.run_seed(master, PROPERTY, i)
    g = kernel.stream(seed, 'gen')
    n = g.randint(2, 6)
    cases = []
    for k in range(n):
        force = 'disturber' if k == 0 and g.random() < 0.7 else None
        cases.append(gen_case(g, 'c%d' % k, force))
    if not any(c['kind'] == 'observer' for c in cases):
        cases.append(gen_case(g, 'c%d' % n, 'observer'))
    suite_phases = sorted(g.sample(PHASES, g.randint(0, 4)), key=PHASES.index)
    sub = None
    if g.random() < 0.5:
        sub = {'phases': sorted(g.sample(PHASES, g.randint(0, 3)), key=PHASES.index),
               'case': gen_case(g, 'u0', g.choice(['observer', 'disturber']))}
    preprocessor = g.random() < 0.3
    if preprocessor and g.random() < 0.6:
        # the suite's preprocessor fails for one case: that case is PRE_PROCESS_ERROR in every mode - and only that case
        g.choice(cases)['ppfail'] = True
    perm = list(range(len(cases)))
    if g.random() < 0.5:
        perm.reverse()
    else:
        g.shuffle(perm)
    return {'format': 1, 'property': PROPERTY, 'engine': 'c17', 'run_seed': seed, 'tier': tier,
            'knobs': {'mem_buff_size': g.choice([1, 8192])}, 'entry': 'cli', 'cases': cases, 'suite_phases': suite_phases,
            'preprocessor': preprocessor, 'sub': sub, 'perm': perm, 'sweep': False,
            # case configuration supplied by the suite's [conf]: applies to directly listed cases, in every run mode
            'suite_conf': {'status_fail': g.random() < 0.2, 'actor': g.random() < 0.2},
            'launch_elsewhere': kernel.stream(seed, 'launch').random() < 0.3,
            'symlinked_cases': kernel.stream(seed, 'symlinks').random() < 0.25,
            'decoy_default_suite': kernel.stream(seed, 'decoy').random() < 0.3}


# ----------------------------------------------------------------------------- model

def effective_case(plan, c, suite_key):
    """The case with the suite's phase contents: before the case's own instructions, after them in [cleanup]."""
    phases = plan['suite_phases'] if suite_key == 'root' else plan['sub']['phases']
    eff = copy.deepcopy(c['case'])
    procs = dict(c['procs'])
    # the included file's [cleanup] part is added where the file is included: before the case's own cleanup
    eff['cleanup'] = [{'k': 'probe', 'id': 'inc-cleanup', 'form': '%'}] + eff['cleanup']
    procs['inc-cleanup'] = {'exit': 0}
    for ph in phases:
        ident = 'suite-%s-%s' % (suite_key, ph)
        item = {'k': 'probe', 'id': ident, 'form': '%'}
        procs[ident] = {'exit': 0}
        items = [item]
        if ph != 'setup':
            items.append({'k': 'probe', 'id': ident + '-lines', 'form': '%'})
            procs[ident + '-lines'] = {'exit': 0}
        if ph == 'setup':
            # the suite also creates files: in the sandbox of the case that is being executed
            items.append({'k': 'real', 'text': 'file suite-file.txt = "from the suite"', 'fx': [['noop']]})
            items.append({'k': 'real', 'text': 'file -rel-tmp suite-tmp-file.txt = "from the suite"', 'fx': [['noop']]})
        if ph == 'before-assert' and c.get('timeout_value') is not None:
            items.append({'k': 'real', 'text': 'timeout = @[CASETIMEOUT]@', 'fx': [['timeout', c['timeout_value']]]})
        if ph == 'cleanup':
            eff[ph] = eff[ph] + items
        else:
            eff[ph] = items + eff[ph]
    return eff, procs


def case_plan(plan, c, suite_key):
    eff, procs = effective_case(plan, c, suite_key)
    phases = plan['suite_phases'] if suite_key == 'root' else plan['sub']['phases']
    return {'case': eff, 'procs': procs, 'faults': c['faults'], 'status': 'PASS', 'act_mode': False, 'entry': 'cli',
            'invalid': any(it.get('invalid') for ph in PHASES for it in eff[ph]) or
            bool(c.get('bad_int') and 'assert' in phases),
            'fails': any(it.get('fails') for it in eff['assert'])}


def render_case(c):
    return casegen.render_case(c['case'])


def suite_text(plan, key, order=None):
    lines = []
    if key == 'root':
        sc = plan.get('suite_conf') or {}
        conf = []
        if plan['preprocessor']:
            conf.append('preprocessor = pp -x')
        if sc.get('status_fail'):
            conf.append('status = FAIL')
        if sc.get('actor'):
            conf.append('actor = source % interp')
        if conf:
            lines += ['[conf]'] + conf
        if plan['sub']:
            lines += ['[suites]', 'sub/sub.suite']
        lines += ['[cases]']
        cs = plan['cases']
        for i in (order if order is not None else range(len(cs))):
            lines.append('%s.case' % cs[i]['id'])
        phases = plan['suite_phases']
    else:
        lines += ['[cases]', '%s.case' % plan['sub']['case']['id']]
        phases = plan['sub']['phases']
    for ph in phases:
        # the suite's instructions are parsed once and shared by all cases: they refer to things that differ per case
        lines += ['[%s]' % ph, '%% suite-%s-%s %s' % (key, ph, SUITE_ARGS_SETUP if ph == 'setup' else SUITE_ARGS)]
        if ph == 'assert':
            # validated before execution, against the symbols of the case it is part of
            lines += ['exit-code >= @[CASEINT]@', 'stdout num-lines >= @[CASEINT2]@']
        if ph != 'setup':
            # a value computed by a transformer from a per-case symbol reaches the child as its stdin
            ref = 'CASELINE'
            if ph in ('assert', 'cleanup'):
                # ... through a symbol that the suite itself defines (one definition for all cases) in terms of the per-case one
                ref = 'SUITELINES_%s' % ph.upper()
                lines += ['def string %s = @[CASELINE]@' % ref]
            lines += ['run %% suite-%s-%s-lines' % (key, ph),
                      '  -stdin -contents-of -rel-home lines.txt -transformed-by filter -line-nums @[%s]@' % ref]
        if ph == 'setup':
            lines += ['file suite-file.txt = "from the suite"', 'file -rel-tmp suite-tmp-file.txt = "from the suite"']
        if ph == 'before-assert':
            lines += ['timeout = @[CASETIMEOUT]@']
    return '\n'.join(lines) + '\n'


SUITE_ARGS_SETUP = '@[EXACTLY_ACT]@'
SUITE_ARGS = '@[CASEVAL]@ @[EXACTLY_ACT]@ "x-@[CASEVAL]@"'


def suite_marker_args(tag, cid):
    if tag.endswith('-lines'):
        return [tag]
    if tag.endswith('-setup'):
        return [tag, '$SBX/act']
    return [tag, 'val-' + cid, '$SBX/act', 'x-val-' + cid]


# ----------------------------------------------------------------------------- execute

_CASE_BEGIN = re.compile(r'^case\s+(\S.*?):\s*$')
IDENT_RE = re.compile(r'\b(PASS|FAIL|XFAIL|XPASS|SKIPPED|VALIDATION_ERROR|HARD_ERROR|INTERNAL_ERROR|SYNTAX_ERROR|'
                      r'FILE_ACCESS_ERROR|PRE_PROCESS_ERROR)\s*$')


def split_suite_run(sim):
    """[(case path, identifier, spawn range, trace range)] from the tapped progress lines."""
    out = []
    cur = None
    buf = ''
    for e in sim.events:
        if e['ev'] != 'out' or e['which'] != 'out':
            continue
        buf += e['s']
        while True:
            m = _CASE_BEGIN.match(buf)
            if m and '\n' not in buf:
                cur = {'path': m.group(1), 'ident': None, 's0': e['spawns'], 't0': e['trace'], 's1': None, 't1': None}
                out.append(cur)
                buf = ''
                break
            if '\n' not in buf:
                break
            line, buf = buf.split('\n', 1)
            m2 = re.match(r'^case\s+(\S.*?):\s*(.*)$', line)
            if m2:
                cur = {'path': m2.group(1), 'ident': None, 's0': e['spawns'], 't0': e['trace'], 's1': None, 't1': None}
                out.append(cur)
                line = m2.group(2)
            mi = IDENT_RE.search(line)
            if mi and cur is not None and cur['ident'] is None:
                cur['ident'] = mi.group(1)
                cur['s1'], cur['t1'] = e['spawns'], e['trace']
                cur = None
    return out


def _record(sim, w, s0, s1, t0, t1, sandbox_index):
    """Observation record of one case: spawn events and stub views, paths normalised to the case's own sandbox."""
    spawns = sim.spawns[s0:s1]
    traces = sim.trace[t0:t1]
    sbx = None
    for s in spawns:
        m = re.match(r'^(.*/sbx\d+)(/|$)', s['cwd'])
        if m:
            sbx = m.group(1)
            break
    if sbx is None:
        for t in traces:
            m = re.match(r'^(.*/sbx\d+)(/|$)', t['cwd'])
            if m:
                sbx = m.group(1)
                break

    def rel(p):
        if sbx and (p == sbx or p.startswith(sbx + os.sep)):
            return os.path.relpath(p, sbx)
        return w.norm(p)

    def nargs(a):
        if isinstance(a, str):
            return a.replace(sbx, '$SBX') if sbx else a
        return [x.replace(sbx, '$SBX') if sbx else x for x in a]

    events = []
    for s in spawns:
        events.append({'seq': s['seq'], 'kind': 'spawn', 'id': s['tag'], 'cwd': rel(s['cwd']), 'env': dict(s['env']),
                       'waits': list(s['waits']), 'killed': s['killed'], 'exit': s['exit'], 'error': s.get('spawn_error'),
                       'args': nargs(s['args']), 'stdin': s['stdin'], 't_spawn': 0, 't_kill': None, 'n': 0,
                       'obs': s['obs'].get('sbx'),
                       # (the source-interpreter actor hands the interpreter a file with the [act] contents of the case)
                       'given_files': sorted(s['files'].values()) if s['tag'] == 'interp' else None})
    for t in traces:
        if t['step'] in ('main', 'execute'):
            events.append({'seq': t['seq'], 'kind': t['step'], 'id': t['id'], 'cwd': rel(t['cwd']),
                           'view': t['extra'] if isinstance(t['extra'], dict) else None})
    events.sort(key=lambda e: e['seq'])
    for e in events:
        del e['seq']
    return events


def execute(plan, scratch):
    w = world_mod.World(os.path.join(scratch, 'w'))
    cases = plan['cases']
    procs = {'pp': {'exit': 0, 'cat_last_arg_file': True,
                    'when_arg': [{'contains': c['id'] + '.case', 'exit': 3, 'stderr': 'pp failed\n', 'cat_last_arg_file': False}
                                 for c in cases if c.get('ppfail')]},
             'interp': {'exit': 0}}
    faults = []
    cannot_start = []
    for c in cases + ([plan['sub']['case']] if plan['sub'] else []):
        procs.update(c['procs'])
        faults.extend(c['faults'])
        if c['procs'].get(SHARED_TOOL, {}).get('spawn_error'):
            cannot_start.append({'contains': ' ' + c['id'], 'spawn_error': c['procs'][SHARED_TOOL]['spawn_error']})
    procs[SHARED_TOOL] = {'exit': 0, 'when_arg': cannot_start}  # one program name: it cannot be started for some cases
    for k in ('root', 'sub'):
        for ph in PHASES:
            procs['suite-%s-%s' % (k, ph)] = {'exit': 0}
            procs['suite-%s-%s-lines' % (k, ph)] = {'exit': 0}
    w.write('home/common.xly', 'def string FROM_INCLUDED = i\n[cleanup]\n% inc-cleanup\n')
    w.write('home/sub/common.xly', 'def string FROM_INCLUDED = i\n[cleanup]\n% inc-cleanup\n')
    procs['inc-cleanup'] = {'exit': 0}
    w.write('home/lines.txt', 'l1\nl2\nl3\n')
    w.write('home/sub/lines.txt', 'l1\nl2\nl3\n')
    for c in cases:
        if plan.get('symlinked_cases'):
            # the case files of the suite are symbolic links to files that stand elsewhere: the case is the link - its
            # directory is where the suite, included files and home-relative files are looked for, in every run mode
            w.write('home/shared/%s.case' % c['id'], render_case(c))
            os.symlink(os.path.join('shared', '%s.case' % c['id']), os.path.join(w.home, '%s.case' % c['id']))
        else:
            w.write('home/%s.case' % c['id'], render_case(c))
    w.write('home/root.suite', suite_text(plan, 'root'))
    if plan['sub']:
        w.write('home/sub/sub.suite', suite_text(plan, 'sub'))
        w.write('home/sub/%s.case' % plan['sub']['case']['id'], render_case(plan['sub']['case']))
    records = {}  # mode -> case id -> {'ident', 'events'}
    harness_state = []
    digests = []
    sim_seconds = 0.0
    order_info = {}

    def new_sim():
        return kernel.Sim(dict(plan, procs=procs, faults=[dict(f) for f in faults]), w)

    elsewhere = bool(plan.get('launch_elsewhere'))
    start = os.path.join(w.home, 'zstart')
    os.makedirs(start, exist_ok=True)

    def suite_run(mode, order):
        w.write('home/root.suite', suite_text(plan, 'root', order))
        sim = new_sim()
        with patches.installed(sim):
            if elsewhere and mode == 'suite_permuted':
                # launched from another directory: every path Exactly is given is relative to that directory
                res = host.run_cli(sim, ['suite', '../root.suite'], tap=True, label=mode, cwd=start)
            else:
                res = host.run_cli(sim, ['suite', 'root.suite'], tap=True, label=mode)
        segs = split_suite_run(sim)
        recs = {}
        for k, sg in enumerate(segs):
            cid = os.path.basename(sg['path']).split('.')[0]
            if sg['s1'] is None:
                continue
            recs[cid] = {'ident': sg['ident'], 'events': _record(sim, w, sg['s0'], sg['s1'], sg['t0'], sg['t1'], k)}
        records[mode] = recs
        order_info[mode] = [os.path.basename(sg['path']).split('.')[0] for sg in segs]
        harness_state.append((mode, res['cwd_ok'], res['environ_ok'], res.get('exception'), res.get('hang'), w.tmp_entries()))
        digests.append(sim.digest())
        return sim.clock.advanced

    sim_seconds += suite_run('suite', list(range(len(cases))))
    sim_seconds += suite_run('suite_permuted', plan['perm'])
    w.write('home/root.suite', suite_text(plan, 'root'))

    def single(mode, argv, cid, cwd=None):
        sim = new_sim()
        with patches.installed(sim):
            res = host.run_cli(sim, argv, label=mode, cwd=cwd)
        ident = res['stdout'].strip()
        records.setdefault(mode, {})[cid] = {'ident': ident, 'events': _record(sim, w, 0, len(sim.spawns), 0, len(sim.trace), 0),
                                             'stderr': res['stderr'][:200] if ident not in ('PASS', 'FAIL') else ''}
        harness_state.append((mode + ':' + cid, res['cwd_ok'], res['environ_ok'], res.get('exception'), res.get('hang'),
                              w.tmp_entries()))
        digests.append(sim.digest())
        return sim.clock.advanced

    # (c) alone, with the suite given: the suite that is GIVEN applies - also when another one, named exactly.suite, stands
    # beside the case
    decoy = bool(plan.get('decoy_default_suite'))
    if decoy:
        w.write('home/exactly.suite', '[setup]\n% decoy-suite-setup\n[cleanup]\n% decoy-suite-cleanup\n')
    for c in cases:
        if elsewhere:
            sim_seconds += single('explicit', ['--suite', '../root.suite', '../' + c['id'] + '.case'], c['id'], cwd=start)
        else:
            sim_seconds += single('explicit', ['--suite', 'root.suite', c['id'] + '.case'], c['id'])
    if decoy:
        os.unlink(os.path.join(w.home, 'exactly.suite'))
    # (d) beside a copy of the suite file named exactly.suite
    w.write('home/exactly.suite', suite_text(plan, 'root'))
    for c in cases:
        sim_seconds += single('beside', [c['id'] + '.case'], c['id'])
    os.unlink(os.path.join(w.home, 'exactly.suite'))
    if plan['sub']:
        u = plan['sub']['case']
        sim_seconds += single('explicit', ['--suite', 'sub/sub.suite', 'sub/%s.case' % u['id']], u['id'])
        w.write('home/sub/exactly.suite', suite_text(plan, 'sub'))
        sim_seconds += single('beside', ['sub/%s.case' % u['id']], u['id'])
    hist = {'records': records, 'harness_state': harness_state, 'order_info': order_info,
            'digest': kernel.digest(digests), 'sim_seconds': sim_seconds}
    _probes(plan, hist)
    w.destroy()
    return hist


def _probes(plan, hist):
    pr = {'mode_suite_run': 1, 'mode_permuted': 1, 'mode_explicit_suite_option': 1, 'mode_beside_exactly_suite': 1}
    if plan.get('launch_elsewhere'):
        pr['launched_from_another_directory'] = 1
    if plan.get('decoy_default_suite'):
        pr['suite_given_while_another_default_suite_stands_beside_the_case'] = 1
    if plan.get('symlinked_cases'):
        pr['case_files_are_symbolic_links'] = 1
    if any((c['case'].get('layout') or {}).get('act_first_without_header') for c in plan['cases']):
        pr['act_contents_without_header'] = 1
    cases = plan['cases']
    for order in (list(range(len(cases))), plan['perm']):
        seen_d = False
        for i in order:
            if cases[i]['kind'] == 'disturber':
                seen_d = True
            elif seen_d:
                pr['disturber_before_observer'] = 1
    for c in cases:
        if c['kind'] == 'disturber':
            e = c['end']
            if e == 'exception':
                pr['disturber_ended_by_exception'] = 1
            if e == 'timeout':
                pr['disturber_ended_by_timeout'] = 1
            if e == 'hard':
                pr['disturber_ended_by_hard_error'] = 1
            if e == 'cannot_start':
                pr['disturber_cannot_start_a_program_that_later_cases_start'] = 1
            if e == 'cleanupfail':
                pr['disturber_failing_cleanup'] = 1
            texts = [it.get('text', '') for it in c['case']['setup']]
            if 'timeout = none' in texts:
                pr['timeout_none_disturbance'] = 1
            if any(t.startswith('env -of act') for t in texts):
                pr['env_act_set_disturbance'] = 1
            if any(t.startswith('cd ') for t in texts):
                pr['cd_disturbance'] = 1
        else:
            pr['observer_same_symbol_names'] = 1
            if c['end'] == 'foreign_symbol':
                pr['observer_foreign_symbol_reference'] = 1
    for c in cases:
        if c.get('own_status'):
            pr['case_with_own_conf_status'] = 1
        if c.get('bad_int') and 'assert' in plan['suite_phases']:
            pr['case_with_invalid_value_for_suite_instruction'] = 1
        if any(it.get('text') == 'stdin = "leaked-stdin"' for it in c['case']['setup']):
            pr['stdin_disturbance'] = 1
    for ph in plan['suite_phases']:
        pr['suite_phase_' + ph.replace('-', '_')] = 1
    if plan['sub']:
        pr['sub_suite_case'] = 1
    if plan['preprocessor']:
        pr['suite_preprocessor'] = 1
        if any(c.get('ppfail') for c in plan['cases']):
            pr['preprocessor_fails_for_one_case'] = 1
    if (plan.get('suite_conf') or {}).get('status_fail'):
        pr['suite_conf_status'] = 1
    if (plan.get('suite_conf') or {}).get('actor'):
        pr['suite_conf_actor'] = 1
    hist['probes'] = pr
    hist['armed'] = {c['end']: 1 for c in cases}
    hist['fired'] = {}


# ----------------------------------------------------------------------------- oracle

def _expected_for_case(plan, c, suite_key, rec):
    """Absolute expectation for one case that starts from a pristine state."""
    cp = case_plan(plan, c, suite_key)
    mini = {
        'trace': [], 'spawns': [], 'fired': [], 'n_sandboxes': 1,
    }
    # rebuild the inputs of c01._annotate from the record
    seq = 0
    fired = []
    for e in rec['events']:
        seq += 1
        e['_seq'] = seq
        if e['kind'] == 'spawn':
            mini['spawns'].append({'tag': e['id'], 'seq': seq, 'error': e['error'], 'exit': e['exit'], 'killed': e['killed']})
        else:
            mini['trace'].append({'id': e['id'], 'step': e['kind'], 'seq': seq, 'prev': (e.get('view') or {}).get('previous_phase'),
                                  'sbx': 1})
            f = next((f for f in c['faults'] if f['id'] == e['id'] and f['step'] == e['kind']), None)
            if f is not None:
                fired.append({'id': f['id'], 'step': f['step'], 'kind': f['kind'], 'seq': seq})
    mini['fired'] = fired
    c01._annotate(cp, mini)
    for e in rec['events']:
        e['seq'] = e.pop('_seq')
    expect, executed_ops, st, primary, ploc = c11.expected_views(cp, mini)
    return cp, mini, expect, primary


def oracle(plan, hist):
    V = []

    def bad(rule, expected_, observed, **kw):
        V.append(dict(kw, rule='C17.' + rule, expected=expected_, observed=observed))

    for (mode, cwd_ok, env_ok, exc, hang, leftover) in hist['harness_state']:
        if exc or hang:
            bad('returns', 'returns', {'exception': exc, 'hang': hang}, mode=mode)
            return V
        if not cwd_ok or not env_ok:
            bad('process_state_restored_after_every_case', True, {'cwd_ok': cwd_ok, 'environ_ok': env_ok}, mode=mode)
        if leftover:
            bad('sandboxes_removed', [], leftover, mode=mode)
    cases = [(c, 'root') for c in plan['cases']] + ([(plan['sub']['case'], 'sub')] if plan['sub'] else [])
    recs = hist['records']
    for c, suite_key in cases:
        cid = c['id']
        per_mode = {m: recs[m].get(cid) for m in ('suite', 'suite_permuted', 'explicit', 'beside') if cid in recs.get(m, {})}
        if len(per_mode) < 4:
            bad('case_processed_in_every_mode', ['suite', 'suite_permuted', 'explicit', 'beside'], sorted(per_mode), case=cid)
            continue
        # --- absolute expectations, per mode (a leak shows up as a deviation from the pristine-state model)
        for mode, rec in per_mode.items():
            cp, mini, expect, primary = _expected_for_case(plan, c, suite_key, rec)
            want_pp = plan['preprocessor'] and suite_key == 'root'
            events = list(rec['events'])
            pps = [e for e in events if e['id'] == 'pp']
            if bool(pps) != bool(want_pp):
                bad('suite_preprocessor_applies_to_directly_listed_cases_only', bool(want_pp), [e['args'] for e in pps],
                    case=cid, mode=mode)
            events = [e for e in events if e['id'] != 'pp']
            if c.get('ppfail') and want_pp:
                if rec['ident'] != 'PRE_PROCESS_ERROR':
                    bad('outcome', 'PRE_PROCESS_ERROR', rec['ident'], case=cid, mode=mode)
                if events:
                    bad('case_that_cannot_be_preprocessed_executes_nothing', [], [e['id'] for e in events], case=cid, mode=mode)
                continue
            own = c.get('own_status')
            if own == 'SKIP':
                if rec['ident'] != 'SKIPPED':
                    bad('outcome', 'SKIPPED', rec['ident'], case=cid, mode=mode)
                if events:
                    bad('skipped_case_executes_nothing', [], [e['id'] for e in events], case=cid, mode=mode)
                continue
            if cp['invalid']:
                if rec['ident'] != 'VALIDATION_ERROR':
                    bad('symbols_do_not_carry_over' if c['end'] == 'foreign_symbol' else 'outcome',
                        'VALIDATION_ERROR', rec['ident'], case=cid, mode=mode)
                if events:
                    bad('invalid_case_executes_nothing', [], [e['id'] for e in events], case=cid, mode=mode)
                continue
            # expected spawn sequence: the probes of the executed items, in order
            fired = mini['fired_all']
            ploc = P.locate(cp['case'], primary) if primary else None
            failing_cleanup = {g_['id'] for g_ in c01._armed(cp) if c01._is_cleanup_main(cp, g_)}
            items = P.executed_items(cp['case'], 'PASS', False, ploc, failing_cleanup)
            sc = (plan.get('suite_conf') or {}) if suite_key == 'root' else {}
            atc_tag = 'interp' if sc.get('actor') else '%s-atc' % cid
            want_seq = []
            for ph, idx, item in items:
                if ph == 'act':
                    want_seq.append(atc_tag)
                elif item and item['k'] == 'probe':
                    want_seq.append(item['id'])
            got_seq = [e['id'] for e in events if e['kind'] == 'spawn']
            if got_seq != want_seq:
                bad('suite_contents_and_case_contents_in_order', want_seq, got_seq, case=cid, mode=mode, suite=suite_key)
                continue
            first = True
            for e in events:
                x = expect.get('atc' if (e['id'].endswith('-atc') or e['id'] == 'interp') else e['id'])
                if x is None:
                    continue
                if e['kind'] == 'spawn':
                    if e['id'] == 'interp' and not any(('%s-atc' % cid) in f for f in (e.get('given_files') or [])):
                        bad('action_is_the_one_of_this_case', {'source file contains': '%% %s-atc' % cid},
                            {'files given to the interpreter': e.get('given_files')}, case=cid, mode=mode)
                    if e['id'].endswith('-atc') or e['id'] == 'interp':
                        texts = [it.get('text') for it in c['case']['setup']]
                        want_stdin = 'leaked-stdin' if 'stdin = "leaked-stdin"' in texts else ''
                        if e['stdin'] != want_stdin:
                            bad('stdin_setting_does_not_carry_over', want_stdin, e['stdin'], case=cid, mode=mode)
                    if e['id'].endswith('-lines') and e['stdin'] != 'l%d\n' % caseline(cid):
                        bad('suite_instruction_sees_the_case_it_runs_in', {'stdin': 'l%d\n' % caseline(cid)},
                            {'stdin': e['stdin']}, case=cid, mode=mode, instruction='-transformed-by filter -line-nums @[CASELINE]@')
                    if e['id'].startswith('suite-') and e['args'] != suite_marker_args(e['id'], cid):
                        bad('suite_instruction_sees_the_case_it_runs_in', suite_marker_args(e['id'], cid), e['args'],
                            case=cid, mode=mode)
                    if e['cwd'] != x['cwd']:
                        bad('cwd_does_not_carry_over', {'id': e['id'], 'cwd': x['cwd']}, e['cwd'], case=cid, mode=mode)
                    if e['env'] != x['env']:
                        bad('environ_does_not_carry_over', {'id': e['id'], 'env': c11._d(x['env'])}, c11._d(e['env']),
                            case=cid, mode=mode)
                    if len(e['waits']) == 1 and e['waits'][0] != x['timeout']:
                        bad('timeout_does_not_carry_over', {'id': e['id'], 'timeout': x['timeout']}, e['waits'][0],
                            case=cid, mode=mode)
                    if first and e.get('obs') is not None:
                        o = e['obs']
                        if o['act'] or o['tmp'] or o['result']:
                            bad('sandbox_contents_do_not_carry_over', {'act': [], 'tmp': [], 'result': []},
                                {'act': o['act'], 'tmp': o['tmp'], 'result': o['result']}, case=cid, mode=mode)
                    first = False
                else:
                    view = e.get('view')
                    if view is None:
                        continue
                    env = view.get('environ')
                    eff = dict(world_mod.FIXED_ENVIRON) if env is None else env
                    if eff != x['env']:
                        bad('environ_does_not_carry_over', {'id': e['id'], 'env': c11._d(x['env'])}, c11._d(eff),
                            case=cid, mode=mode)
                    if view.get('timeout') != x['timeout']:
                        bad('timeout_does_not_carry_over', {'id': e['id'], 'timeout': x['timeout']}, view.get('timeout'),
                            case=cid, mode=mode)
            # outcome
            if fired:
                cls = P.class_of(fired[0], P.locate(cp['case'], fired[0])[1])
                ok = {cls} | ({P.class_of(f, 'cleanup') for f in fired[1:]})
            elif cp['fails']:
                ok = {'FAIL'}
            else:
                ok = {'PASS'}
            if own == 'FAIL' or (sc.get('status_fail') and own is None):
                ok = {{'PASS': 'XPASS', 'FAIL': 'XFAIL'}.get(v, v) for v in ok}
            if rec['ident'] not in ok:
                bad('outcome', sorted(ok), rec['ident'], case=cid, mode=mode)
        # --- relative: identical observation record in every mode and order
        base_mode = 'explicit'
        base = _comparable(per_mode[base_mode])
        for mode, rec in per_mode.items():
            if mode == base_mode:
                continue
            if _comparable(rec) != base:
                a, b = _first_diff(base, _comparable(rec))
                bad('same_outcome_in_suite_and_standalone', {'mode': base_mode, 'at': a}, {'mode': mode, 'at': b}, case=cid)
    return V


def _comparable(rec):
    evs = []
    for e in rec['events']:
        d = {k: v for k, v in e.items() if k not in ('seq', 't_spawn', 't_kill', 'n', 'obs')}
        if 'env' in d:
            d['env'] = c11._d(d['env'])
        if d.get('view'):
            v = dict(d['view'])
            for k in ('environ', 's_environ'):
                if v.get(k) is not None:
                    v[k] = c11._d(v[k])
            d['view'] = v
        evs.append(d)
    return {'ident': rec['ident'], 'events': evs}


def _first_diff(a, b):
    if a['ident'] != b['ident']:
        return a['ident'], b['ident']
    for x, y in zip(a['events'], b['events']):
        if x != y:
            return x, y
    return len(a['events']), len(b['events'])


def signature(plan, hist):
    kinds = tuple((c['kind'], c['end']) for c in plan['cases'])
    nontrivial = bool(hist['probes'].get('disturber_before_observer'))
    sc = plan.get('suite_conf') or {}
    return nontrivial, (kinds, tuple(plan['suite_phases']), tuple(plan['sub']['phases']) if plan['sub'] else None,
                        plan['preprocessor'], tuple(plan['perm']), bool(sc.get('status_fail')), bool(sc.get('actor')))


def sample_view(plan, hist):
    r = hist['records']
    return {'suite_file': suite_text(plan, 'root'), 'cases': {c['id']: render_case(c) for c in plan['cases'][:3]},
            'order_in_suite_run': hist['order_info'],
            'identifiers': {m: {k: v['ident'] for k, v in r[m].items()} for m in r},
            'one_record': {m: [(e['id'], e['kind'], e['cwd']) for e in list(r[m].values())[0]['events']] for m in list(r)[:2] if r[m]}}


def normalize(plan):
    if len(plan['cases']) < 1:
        return None
    n = len(plan['cases'])
    perm = [p for p in plan['perm'] if p < n]
    for i in range(n):
        if i not in perm:
            perm.append(i)
    plan['perm'] = perm
    for c in plan['cases'] + ([plan['sub']['case']] if plan.get('sub') else []):
        for ph in ('conf',) + tuple(PHASES):
            c['case'].setdefault(ph, [])
        if 'act' not in c['case']:
            return None
        ids = {it['id'] for ph in PHASES for it in c['case'][ph] if 'id' in it}
        c['faults'] = [f for f in c['faults'] if f['id'] in ids]
        for ph in PHASES:
            for it in c['case'][ph]:
                if it['k'] == 'probe' and it['id'] not in c['procs']:
                    c['procs'][it['id']] = {'exit': 0}
        if '%s-atc' % c['id'] not in c['procs']:
            c['procs']['%s-atc' % c['id']] = {'exit': 0}
        texts = [it.get('text', '') for it in c['case']['setup']]
        if 'cd -rel-act dd' in texts and ('dir -rel-act dd' not in texts or texts.index('dir -rel-act dd') > texts.index('cd -rel-act dd')):
            return None
    return plan
