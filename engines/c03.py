"""C03 — Validation precedes execution: an invalid test case has no effects.

Workload (CLI level, all three output modes, plus `exactly symbol F [NAME]`): a valid base case with an
observable effect in every phase (probe children, stubs, files, directories, an ATC) into which ONE defect is
inserted at every (phase, position incl. the last line of [cleanup]).  The simulator owns every seam through which
an effect can leave Exactly (process spawns, sandbox creation, writes under the world), so "no effect" is an
empty effect history and an unchanged world snapshot.  Control: the undefected base case, run first in the same
world, must show an effect in every phase - otherwise the run is discarded as trivial.
"""
import os

from sim import kernel, world as world_mod, patches, host, casegen

PROPERTY = 'C03'
LEVEL = 'fault_enumeration'
EXHAUSTIVE_SWEEP = True
RULE_TEXT = ('runs = deterministic sweep over defect classes (15) x every variant x phase {setup, before-assert, assert, '
             'cleanup, conf/act where applicable} x position {first, middle, last line of the phase} x output mode '
             '{normal, --keep, --act} on a fixed base case, validation-step faults (sim-fault) at every validation '
             'step x phase x position, and the symbol command on defective and valid cases; then seeded random bases '
             '(random companions, positions, knobs). Non-trivial = the control run of the undefected base showed '
             'process spawns in all five phases and a sandbox; distinct = (defect class, variant, phase, position '
             'class, mode/command).')
REACH_PROBES = ['class_syntax', 'class_unknown_instruction', 'class_undefined_symbol', 'class_defined_later', 'class_self_reference',
                'class_wrong_type', 'class_wrong_type_non_ascii_name', 'class_illegal_relativity', 'class_missing_home_file', 'class_wrong_kind_of_home_file', 'class_missing_file_absolute_path', 'class_bad_integer',
                'class_bad_integer_expression', 'class_bad_regex', 'class_defect_inside_matcher_expression', 'class_act_syntax', 'class_act_defect', 'case_marked_as_expected_to_fail', 'class_unknown_instruction_in_second_included_file', 'defect_phase_partly_in_included_file', 'sections_redeclared_or_reordered',
                'act_defect_command_line_actor', 'act_defect_file_actor', 'act_defect_source_actor', 'class_stub_validation',
                'class_stub_symbols', 'class_suite_shared_instruction', 'class_none_symbol_cmd', 'last_line_of_cleanup', 'mode_normal', 'mode_keep',
                'mode_act', 'cmd_symbol', 'cmd_symbol_name', 'control_ok']

PHASES = ['setup', 'before-assert', 'assert', 'cleanup']
ALLP = tuple(PHASES)

# class -> [(variant text, phases it can be written in)]
DEFECTS = {
    'syntax': [('cd a b', ALLP), ("file x.txt = 'unterminated", ALLP), ('env X', ALLP), ('def string', ALLP),
               ('cd -rel', ALLP), ('file -rel-home hf.txt = "x"', ALLP),
               # a here-document that is never closed (whatever follows it - the rest of the file - is no end marker)
               ('file h.txt = <<NEVER_CLOSED\nfirst line of the text', ALLP),
               ('file h.txt = <<NEVER_CLOSED\nfirst line\nNEVER_CLOSED and more', ALLP)],
    # removed after a thorough run: 'stdout -from' and 'exit-code' without operands continue on the following lines
    # ('stdout -from' + '% m-as' + 'run % x3' IS a valid instruction), i.e. they are not errors irrespective of what
    # follows - a false alarm of the catalogue, not a defect
    'unknown_instruction': [('no-such-instruction x', ALLP), ('exit-code == 0', ('setup', 'cleanup')),
                            ('stdin = "x"', ('assert', 'cleanup'))],
    'undefined_symbol': [('file u.txt = @[UNDEF]@', ALLP), ('def string X = @[UNDEF]@', ALLP),
                         # legal names outside ASCII (a symbol name is any alphanumeric characters and _)
                         ('$ echo @[nicht_definiert_\u00e4]@', ALLP), ('file u.txt = "x @[\u00e5\u00e4\u00f6]@ y"', ALLP),
                         ('file u.txt = <<EOF\nline @[UNDEF_\u03b1\u03b2]@\nEOF', ALLP),
                         ('run @ UNDEF_PROG', ALLP), ('% p @[LISTSYM]@ "@[UNDEF]@"', ALLP),
                         ('stdout equals @[UNDEF]@', ('assert',))],
    'defined_later': [('file u.txt = @[LATER]@', ALLP), ('% p @[LATER]@', ALLP)],
    # a definition that refers to the symbol it defines: at that point the symbol is not defined
    'self_reference': [('def string SELF = x@[SELF]@', ALLP), ('def list SELFL = a @[SELFL]@', ALLP),
                       ('def text-matcher SELFM = ! SELFM', ALLP), ('def path SELFP = -rel SELFP x', ALLP),
                       ('def string SELF2 = "a @[STRSYM]@ @[SELF2]@"', ALLP)],
    'wrong_type_non_ascii_name': [('file u.txt = "@[LM_\u00e4]@"', ALLP), ('$ echo @[LM_\u00e4]@', ALLP)],
    'wrong_type': [('run @ STRSYM', ALLP), ('cd -rel STRSYM x', ALLP), ('cd -rel LISTSYM x', ALLP),
                   ('copy @[LISTSYM]@', ALLP),
                   # the wrongly typed symbol (a path, where only strings may be used) is reached indirectly, through a
                   # string symbol in whose definition it is not the first reference
                   ('timeout = @[INDIR]@', ALLP), ('% @[INDIR]@ arg', ALLP), ('run % @[INDIR]@', ALLP),
                   ('exit-code == @[INDIR]@', ('assert',)), ('timeout = @[INDIR3]@', ALLP)],
    'illegal_relativity': [('file @[HOMEP]@/w.txt = "w"', ALLP), ('file @[HOMEP2]@/w.txt = "w"', ALLP),
                           ('dir @[HOMEP]@/d', ALLP), ('dir @[HOMEP2]@/d', ALLP)],
    'missing_home_file': [('copy nofile.txt', ALLP), ('% p -existing-file nofile.txt', ALLP),
                          ('file f.txt = -contents-of -rel-home nofile', ALLP), ('run nofile-exe', ALLP),
                          ('stdin = -contents-of nofile.txt', ('setup',)),
                          ('run -python -existing-file nofile.py', ALLP),
                          ('run @ ECHOP -existing-file -rel-home nofile.txt', ALLP),
                          ('run @ ECHOP x -existing-file nofile.txt y', ALLP),
                          ('file o.txt = -stdout-from @ ECHOP -existing-dir -rel-home no-such-dir', ALLP),
                          # a name that exists only as a symbolic link whose target does not: the file is as missing
                          ('copy dangling.txt', ALLP), ('% p -existing-path -rel-home dangling.txt', ALLP),
                          ('% p -existing-file dangling.txt', ALLP), ('run dangling.txt', ALLP),
                          ('file f.txt = -contents-of -rel-home dangling.txt', ALLP),
                          ('copy -rel-act-home nofile.txt', ALLP), ('% p -existing-file -rel-act-home nofile.txt', ALLP),
                          ('run -rel-act-home nofile-exe', ALLP)],
    # a name in a home directory that exists but is the wrong kind of file: a directory where a program / a text file is
    # expected, a regular file where a directory is
    'wrong_kind_of_home_file': [('run hp', ALLP), ('run -rel-home hp', ALLP), ('run hp/sub arg', ALLP),
                                ('% p -existing-file hp', ALLP), ('% p -existing-dir existing.txt', ALLP),
                                ('file f.txt = -contents-of -rel-home hp', ALLP),
                                ('stdin = -contents-of hp', ('setup',)),
                                ('file o.txt = -stdout-from hp', ALLP)],
    # a missing file named by an absolute path (literally, or through a path symbol with an absolute value): it does not
    # depend on the sandbox, and is checked before execution just like a missing file in a home directory
    'missing_file_absolute_path': [('copy /no/such/dir/file.txt', ALLP), ('run /no/such/dir/prog', ALLP),
                                   ('% p -existing-file /no/such/dir/file.txt', ALLP),
                                   ('file f.txt = -contents-of /no/such/dir/file.txt', ALLP),
                                   ('run -rel ABSP prog', ALLP), ('copy @[ABSP]@/file.txt', ALLP),
                                   ('stdin = -contents-of /no/such/dir/file.txt', ('setup',)),
                                   ('stdout equals -contents-of /no/such/dir/file.txt', ('assert',))],
    'bad_integer': [('timeout = -1', ALLP), ('timeout = abc', ALLP), ('timeout = 1.5', ALLP),
                    ('exit-code == abc', ('assert',)), ('stdout num-lines == 1.5', ('assert',))],
    'bad_integer_expression': [('timeout = 1//0', ALLP), ('timeout = 5 % 0', ALLP), ('exit-code == 1//0', ('assert',))],
    # a defect that is an operand of a matcher expression: under !, &&, ||, inside parentheses, under a quantifier, in the
    # definition of a matcher symbol
    'defect_inside_matcher_expression': [
        ("stdout ! matches '('", ('assert',)), ("exit-code ! == abc", ('assert',)),
        ("stdout ! equals -contents-of -rel-home nofile.txt", ('assert',)),
        ("stdout every line : ! contents matches '('", ('assert',)),
        ("stdout ( is-empty || ! matches '(' )", ('assert',)), ("stdout ( ! is-empty && matches '(' )", ('assert',)),
        ("stdout -transformed-by filter ! contents matches '(' is-empty", ('assert',)),
        # (the definition of a matcher symbol is not validated by itself - only where the symbol is used: a defective
        # definition that nothing refers to is no defect of the case, so the variants define AND use the symbol)
        ("def text-matcher BADM = ! matches '('\nstdout BADM", ('assert',)),
        ("def line-matcher BADL = ! contents matches '('\nfile r2.txt = 'a' -transformed-by filter BADL", ALLP),
        ("def integer-matcher BADI = ! == abc\nexit-code BADI", ('assert',)),
        ("file r.txt = 'a' -transformed-by filter ! contents matches '('", ALLP),
        # a files-condition may name one file several times (the matchers are combined): every one of them is validated
        ("dir-contents . : matches {\n  same.txt : contents matches '('\n  same.txt : type file\n}", ('assert',)),
        ("dir-contents . : matches -full {\n  same.txt : contents equals -contents-of -rel-home nofile.txt\n  other.txt\n  same.txt\n}", ('assert',)),
        ("def files-condition BADFC = {\n  same.txt : contents matches '('\n  same.txt : type file\n}\ndir-contents . : matches BADFC", ('assert',))],
    'bad_regex': [("file r.txt = 'a' -transformed-by replace '(' x", ALLP),
                  ("file r.txt = 'a' -transformed-by filter contents matches '['", ALLP),
                  ("stdout matches '('", ('assert',))],
}
# defects in the [act] phase, per kind of actor: (configuration line, valid contents, {class: [defective contents]})
ACT_DEFECTS = [
    (None, ['% atc ok-arg'],
     {'undefined_symbol': [['% atc @[UNDEF]@'], ['@ UNDEF_PROG'], ['% atc "quoted @[UNDEF]@ text"'], ['$ atc @[UNDEF]@']],
      'defined_later': [['% atc @[LATER]@'], ['$ atc @[LATER]@']],
      'wrong_type': [['@ STRSYM'], ['% atc @[LMSYM]@']],
      'missing_home_file': [['nofile-exe'], ['% atc -existing-file nofile.txt'], ['-python -existing-file nofile.py']],
      'wrong_kind_of_home_file': [['hp'], ['hp arg'], ['% atc -existing-file hp']]}),
    ('actor = file % atc', ['existing.txt ok-arg'],
     {'undefined_symbol': [['existing.txt @[UNDEF]@']],
      'defined_later': [['existing.txt @[LATER]@']],
      'wrong_type': [['existing.txt @[LMSYM]@']],
      'missing_home_file': [['nofile.py']],
      'wrong_kind_of_home_file': [['hp']]}),
    ('actor = source % atc', ['source text'],
     {'undefined_symbol': [['source text @[UNDEF]@'], ['line one', 'line two @[UNDEF]@ end']],
      'defined_later': [['source text @[LATER]@']],
      'wrong_type': [['source text @[LMSYM]@']]}),
]
# contents of [act] that the command-line actor rejects: unterminated quotes; more than one command (a complete program
# followed by a further non-empty line that is not part of it)
ACT_SYNTAX_VARIANTS = [["'unterminated quote"], ['% atc "unterminated'], ['% atc first-command', '% atc second-command'],
                       ['% atc arg', 'superfluous second line'], ['$ atc one', '', '# a comment', '$ atc two']]
ACT_SPECS = [(ai, cls, vi) for ai, (_, _, d) in enumerate(ACT_DEFECTS) for cls in sorted(d) for vi in range(len(d[cls]))]

# the symbol definitions, each followed by a *legal* reference to the symbol: a defective reference inserted later is
# then never the first reference to its symbol (a validator that checks only the first reference would miss it)
# (instruction with {SYM}, valid value, invalid value, phases)
SUITE_SHARED = [
    ('timeout = @[PERCASE]@', '5', 'notAnInteger', ('before-assert', 'assert', 'cleanup')),
    ('copy @[PERCASE]@ copied.txt', 'existing.txt', 'no-such-file.txt', ('before-assert', 'assert', 'cleanup')),
    ("file r.txt = 'a' -transformed-by replace @[PERCASE]@ x", 'a', '(', ('before-assert', 'assert', 'cleanup')),
    ('exit-code == @[PERCASE]@', '0', '1.5', ('assert',)),
    ('% sp -existing-file @[PERCASE]@', 'existing.txt', 'no-such-file.txt', ('before-assert', 'assert', 'cleanup')),
    # the two cases stand in different directories - their home directories differ: a file that exists in the home of the
    # first case and not in that of the second is missing for the second (fifth element: the cases get homes of their own)
    ('copy -rel-home data.txt copied.txt', '-', '-', ('before-assert', 'assert', 'cleanup'), 'homes'),
    ('copy @[EXACTLY_HOME]@/data.txt copied.txt', '-', '-', ('before-assert', 'assert', 'cleanup'), 'homes'),
    ('% sp -existing-file -rel-act-home data.txt', '-', '-', ('before-assert', 'assert', 'cleanup'), 'homes'),
    ("file r.txt = -contents-of -rel EXACTLY_HOME data.txt", '-', '-', ('before-assert', 'assert', 'cleanup'), 'homes'),
]

BASE_DEFS = ['def string STRSYM = s', 'def list LISTSYM = a b', 'def path HOMEP = -rel-home hp',
             'def path HOMEP2 = @[HOMEP]@/sub', 'def path ABSP = /no/such/dir', 'def program ECHOP = % echo-prog pa',
             'def path ACTP = -rel-act sub',
             'def string INDIR = @[STRSYM]@@[ACTP]@',
             'def string INDIR3 = @[STRSYM]@-@[STRSYM]@-@[INDIR]@',
             'file legal-ref-000.txt = "@[INDIR]@ @[INDIR3]@"',
             'def line-matcher LMSYM = line-num == 1',
             'def line-matcher LM_\u00e4 = line-num == 1',
             "file legal-ref-00.txt = 'a' -transformed-by filter LM_\u00e4",
             "file legal-ref-0.txt = 'a' -transformed-by filter LMSYM",
             'run @ ECHOP legal-ref-arg',
             'file legal-ref-1.txt = "@[STRSYM]@ @[LISTSYM]@"',
             'copy @[HOMEP]@/sub/keep.txt legal-ref-2.txt',
             'copy @[HOMEP2]@/keep.txt legal-ref-3.txt']
ERR_IDENTS = {'SYNTAX_ERROR', 'FILE_ACCESS_ERROR', 'VALIDATION_ERROR'}


def base_case(g=None):
    """A valid case with an effect in every phase."""
    case = {
        'conf': [],
        'setup': [{'k': 'real', 'text': t} for t in BASE_DEFS] + [
            {'k': 'probe', 'id': 'm-setup'}, {'k': 'fault', 'id': 's0'}, {'k': 'real', 'text': 'file sf.txt = "x"'}],
        'act': {'lines': ['% atc']},
        'before-assert': [{'k': 'probe', 'id': 'm-ba'}, {'k': 'fault', 'id': 'b0'}, {'k': 'real', 'text': 'dir bad'}],
        'assert': [{'k': 'probe', 'id': 'm-as'}, {'k': 'fault', 'id': 'a0'}, {'k': 'real', 'text': 'exit-code == 0'}],
        'cleanup': [{'k': 'probe', 'id': 'm-cl'}, {'k': 'fault', 'id': 'l0'},
                    {'k': 'real', 'text': 'file cf.txt = "y"'}],
    }
    if g is not None:
        n = 0
        for ph in PHASES:
            for _ in range(g.choice([0, 0, 1, 2])):
                n += 1
                item = g.choice([{'k': 'real', 'text': 'env E%d = v' % n},
                                 {'k': 'real', 'text': 'file -rel-tmp t%d.txt = "t"' % n},
                                 {'k': 'probe', 'id': 'x%d' % n, 'form': g.choice(['%', 'run', '$'])},
                                 {'k': 'fault', 'id': casegen.PREFIX[ph] + 'r%d' % n},
                                 {'k': 'real', 'text': 'def string D%d = d' % n}])
                lo = len(BASE_DEFS) if ph == 'setup' else 0
                case[ph].insert(g.randint(lo, len(case[ph])), item)
    return case


_SW = {}


def sweep_specs():
    if 's' in _SW:
        return _SW['s']
    S = []
    for cls in sorted(DEFECTS):
        for vi, (text, phases) in enumerate(DEFECTS[cls]):
            for ph in phases:
                for pos in ('first', 'middle', 'last'):
                    for mode in ('normal', 'keep', 'act'):
                        S.append({'cls': cls, 'variant': vi, 'phase': ph, 'pos': pos, 'cmd': mode})
    for mode in ('normal', 'keep', 'act'):
        for vi in range(len(ACT_SYNTAX_VARIANTS)):
            S.append({'cls': 'act_syntax', 'variant': vi, 'phase': 'act', 'pos': 'first', 'cmd': mode})
    for step, kind, cls in (('symbols', 'undefined_symbol', 'stub_symbols'), ('pre_sds', 'svh_validation', 'stub_validation')):
        for ph in PHASES + ['act']:
            for pos in ('first', 'middle', 'last'):
                for mode in ('normal', 'keep'):
                    S.append({'cls': cls, 'variant': 0, 'phase': ph, 'pos': pos, 'cmd': mode, 'step': step, 'kind': kind})
    # the defect stands in an included file / in the second declaration of its phase / in a file whose sections are
    # declared in reverse order
    for cls in sorted(DEFECTS):
        for ph in DEFECTS[cls][0][1]:
            for lay in ('included', 'second_declaration', 'reverse_order'):
                S.append({'cls': cls, 'variant': 0, 'phase': ph, 'pos': 'last', 'cmd': 'normal', 'layout': lay})
    # a file included from a later phase holds an instruction that exists in [setup] only, while a file was included
    # from [setup] before (each included file is parsed in the phase its directive stands in)
    for ph in ('before-assert', 'assert', 'cleanup'):
        for mode in ('normal', 'keep', 'act'):
            S.append({'cls': 'unknown_instruction_in_second_included_file', 'variant': 0, 'phase': ph, 'pos': 'last',
                      'cmd': mode})
    # defects in [act], for each kind of actor that has contents; a symbol that is defined only *after* [act] (in any of
    # the later phases) is as undefined for the action to check as one that is never defined
    for (ai, cls, vi) in ACT_SPECS:
        for mode in ('normal', 'keep', 'act'):
            laters = ('before-assert', 'assert', 'cleanup') if cls == 'defined_later' else (None,)
            for lp in laters:
                S.append({'cls': 'act_defect', 'variant': [ai, cls, vi], 'phase': 'act', 'pos': 'first', 'cmd': mode,
                          'later_phase': lp})
    # an instruction supplied by a suite (parsed once, part of every case) that needs a per-case symbol: the first case
    # of the suite run defines a valid value, the second an invalid one
    for vi in range(len(SUITE_SHARED)):
        for ph in ('before-assert', 'assert', 'cleanup'):
            if ph in SUITE_SHARED[vi][3]:
                S.append({'cls': 'suite_shared_instruction', 'variant': vi, 'phase': ph, 'pos': 'last', 'cmd': 'suite'})
    # the symbol command: on valid cases and on a sample of defective ones
    for cmd in ('symbol', 'symbol_name'):
        S.append({'cls': 'none', 'variant': 0, 'phase': None, 'pos': None, 'cmd': cmd})
        for cls in sorted(DEFECTS):
            for ph in ('setup', 'cleanup'):
                S.append({'cls': cls, 'variant': 0, 'phase': ph, 'pos': 'last', 'cmd': cmd})
    _SW['s'] = S
    return S


def total_runs(tier):
    return len(sweep_specs()) + (500 if tier == 'quick' else 250000)


def make_plan(i, master, tier):
    seed = kernel.run_seed(master, PROPERTY, i)
    g = kernel.stream(seed, 'gen')
    S = sweep_specs()
    if i < len(S):
        spec = dict(S[i])
        case = base_case()
        sweep = True
    else:
        sweep = False
        case = base_case(g)
        r = g.random()
        if r < 0.04:
            vi = g.randrange(len(SUITE_SHARED))
            spec = {'cls': 'suite_shared_instruction', 'variant': vi, 'phase': g.choice(SUITE_SHARED[vi][3]), 'pos': 'last'}
        elif r < 0.08:
            spec = {'cls': 'act_syntax', 'variant': g.randrange(len(ACT_SYNTAX_VARIANTS)), 'phase': 'act', 'pos': 'first'}
        elif r < 0.16:
            ai, cls, vi = g.choice(ACT_SPECS)
            spec = {'cls': 'act_defect', 'variant': [ai, cls, vi], 'phase': 'act', 'pos': 'first',
                    'later_phase': g.choice(['before-assert', 'assert', 'cleanup']) if cls == 'defined_later' else None}
        elif r < 0.25:
            step, kind, cls = g.choice([('symbols', 'undefined_symbol', 'stub_symbols'),
                                        ('pre_sds', 'svh_validation', 'stub_validation')])
            spec = {'cls': cls, 'variant': 0, 'phase': g.choice(PHASES + ['act']), 'pos': g.choice(['first', 'middle', 'last', 'rand']),
                    'step': step, 'kind': kind}
        else:
            cls = g.choice(sorted(DEFECTS))
            vi = g.randrange(len(DEFECTS[cls]))
            spec = {'cls': cls, 'variant': vi, 'phase': g.choice(DEFECTS[cls][vi][1]),
                    'pos': g.choice(['first', 'middle', 'last', 'rand'])}
        spec['cmd'] = g.choices(['normal', 'keep', 'act', 'symbol', 'symbol_name'], [35, 25, 20, 10, 10])[0]
        if spec['cls'] == 'suite_shared_instruction':
            spec['cmd'] = 'suite'
    return build(seed, tier, case, spec, g, sweep)


def build(seed, tier, case, spec, g, sweep):
    import copy
    if spec['cls'] == 'suite_shared_instruction':
        return {'format': 1, 'property': PROPERTY, 'engine': 'c03', 'run_seed': seed, 'tier': tier,
                'knobs': {'mem_buff_size': g.choice([1, 8192])}, 'entry': 'cli', 'spec': spec, 'case': {}, 'control': {},
                'procs': {'sp': {'exit': 0}}, 'faults': [], 'sweep': sweep, 'files': {'home/existing.txt': 'e', 'home/hp/sub/keep.txt': 'k'}}
    control = copy.deepcopy(case)
    faults = []
    cls, ph = spec['cls'], spec['phase']
    later_needed = cls == 'defined_later'

    def position(items, lo):
        if spec['pos'] == 'first':
            return lo
        if spec['pos'] == 'last':
            return len(items)
        if spec['pos'] == 'middle':
            return (lo + len(items) + 1) // 2
        return g.randint(lo, len(items))

    if cls in DEFECTS:
        text = DEFECTS[cls][spec['variant']][0]
        lo = len(BASE_DEFS) if ph == 'setup' else 0
        items = case[ph]
        items.insert(position(items, lo), {'k': 'real', 'text': text, 'e': 1})
        spec['text'] = text
    elif cls == 'act_syntax':
        case['act'] = {'lines': ACT_SYNTAX_VARIANTS[spec['variant']]}
    elif cls == 'unknown_instruction_in_second_included_file':
        for c in (case, control):
            c['setup'].insert(len(BASE_DEFS), {'k': 'real', 'text': 'including inc-a.xly'})
            c[ph].append({'k': 'real', 'text': 'including inc-b.xly', 'e': 1 if c is case else 0})
        spec['text'] = 'stdin = "x"   (in inc-b.xly, included from [%s])' % ph
    elif cls == 'act_defect':
        ai, dcls, vi = spec['variant']
        conf, valid, defects = ACT_DEFECTS[ai]
        if conf:
            case['conf'].append({'k': 'real', 'text': conf})
            control['conf'].append({'k': 'real', 'text': conf})
        control['act'] = {'lines': list(valid)}
        case['act'] = {'lines': list(defects[dcls][vi])}
        spec['text'] = '\n'.join(defects[dcls][vi])
        if dcls == 'defined_later':
            lp = spec['later_phase']
            at = g.choice([0, len(case[lp])]) if not sweep else (0 if lp != 'cleanup' else len(case[lp]))
            case[lp].insert(at, {'k': 'real', 'text': 'def string LATER = l', 'e': 1})
            control[lp].insert(at, {'k': 'real', 'text': 'def string LATER = l'})
    elif cls in ('stub_symbols', 'stub_validation'):
        if ph == 'act':
            faults.append({'id': 'act', 'step': spec['step'], 'kind': spec['kind']})
        else:
            ident = casegen.PREFIX[ph] + 'x'
            lo = len(BASE_DEFS) if ph == 'setup' else 0
            items = case[ph]
            items.insert(position(items, lo), {'k': 'fault', 'id': ident, 'e': 1})
            faults.append({'id': ident, 'step': spec['step'], 'kind': spec['kind']})
    elif cls == 'none':
        pass
    if later_needed:
        # the symbol is defined after its use: on the very last line of [cleanup]
        case['cleanup'].append({'k': 'real', 'text': 'def string LATER = l', 'e': 1})
        control['cleanup'].append({'k': 'real', 'text': 'def string LATER = l'})
    lay = spec.get('layout')
    if lay is None and not sweep and cls in DEFECTS:
        lg = kernel.stream(seed, 'layout')
        if lg.random() < 0.4:
            lay = 'random'
            layout = casegen.random_layout(lg)
    if lay == 'included':
        layout = {'include': {ph: [len(case[ph]) - 1, 1]}}
    elif lay == 'second_declaration':
        layout = {'split': [ph]}
    elif lay == 'reverse_order':
        layout = {'order': list(reversed(casegen.PHASES))}
    if lay:
        case['layout'] = layout
        control['layout'] = copy.deepcopy(layout)
    procs = {'atc': {'exit': 0, 'stdout': 'o\n'}}
    for c in (case,):
        for p in PHASES:
            for it in c[p]:
                if it['k'] == 'probe':
                    procs[it['id']] = {'exit': 0}
    procs['p'] = {'exit': 0}
    procs['echo-prog'] = {'exit': 0}
    plan = {'format': 1, 'property': PROPERTY, 'engine': 'c03', 'run_seed': seed, 'tier': tier,
            'knobs': {'mem_buff_size': g.choice([1, 8192])}, 'entry': 'cli', 'spec': spec, 'case': case,
            'control': control, 'procs': procs, 'faults': faults, 'sweep': sweep,
            'files': {'home/hp/sub/keep.txt': 'k', 'home/existing.txt': 'e',
                      'home/dangling.txt': {'symlink': 'no-such-target.txt'}}}
    # the case may be marked as expected to fail: an invalid case is invalid all the same
    if (int(seed[:2], 16) % 4 == 1) if sweep else (g.random() < 0.2):
        plan['status'] = 'FAIL'
    if cls == 'unknown_instruction_in_second_included_file':
        plan['files']['home/inc-a.xly'] = 'def string FROM_A = a\n'
        plan['files']['home/inc-b.xly'] = 'def string FROM_B = b\n'   # (the control)
        plan['files_case'] = {'home/inc-b.xly': 'stdin = "x"\n'}       # (the defect)
    return plan


# ----------------------------------------------------------------------------- execute

def _effects(sim, w, before):
    after = w.snapshot()
    return {'spawns': [s['tag'] for s in sim.spawns], 'sandboxes': len(sim.sandboxes),
            'mains': [(t['id'], t['step']) for t in sim.trace if t['step'] in ('main', 'prepare', 'execute')],
            'world_changed': [a for a in after if a not in before][:5] + [b for b in before if b not in after][:5]}


def _execute_suite(plan, scratch):
    w = world_mod.World(os.path.join(scratch, 'w'))
    w.populate(plan['files'])
    spec = plan['spec']
    instr, valid, invalid = SUITE_SHARED[spec['variant']][:3]
    homes = len(SUITE_SHARED[spec['variant']]) > 4
    ph = spec['phase']

    def case_text(n, value):
        return ('[setup]\ndef string PERCASE = \'%s\'\n%% k%d-setup\n[act]\n%% k%d-atc\n[before-assert]\n%% k%d-ba\n'
                '[assert]\n%% k%d-as\n[cleanup]\n%% k%d-cl\n' % (value, n, n, n, n, n))

    if homes:
        w.write('home/a/k1.case', case_text(1, valid))
        w.write('home/a/data.txt', 'only in the home directory of the first case\n')
        w.write('home/b/k2.case', case_text(2, invalid))
        w.write('home/s.suite', '[cases]\na/k1.case\nb/k2.case\n[%s]\n%s\n' % (ph, instr))
    else:
        w.write('home/k1.case', case_text(1, valid))
        w.write('home/k2.case', case_text(2, invalid))
        w.write('home/s.suite', '[cases]\nk1.case\nk2.case\n[%s]\n%s\n' % (ph, instr))
    sim = kernel.Sim(plan, w)
    before = w.snapshot()
    with patches.installed(sim):
        res = host.run_cli(sim, ['suite', 's.suite'], tap=True)
        after = w.snapshot()
        digest = sim.digest()
    tags = [s_['tag'] for s_ in sim.spawns]
    idents = {}
    for line in res['stdout'].split('\n'):
        for n in (1, 2):
            if ('k%d.case' % n) in line and line.strip().split():
                idents[n] = line.strip().split()[-1]
    control_ok = idents.get(1) == 'PASS' and all(('k1-' + x) in tags for x in ('setup', 'atc', 'ba', 'as', 'cl'))
    hist = {'text': open(os.path.join(w.home, 's.suite')).read(), 'argv': ['suite', 's.suite'], 'result': res,
            'effects': {'spawns': [t for t in tags if t.startswith('k2-')], 'sandboxes': max(0, len(sim.sandboxes) - 1),
                        'mains': [], 'world_changed': [a for a in after if a not in before][:5]},
            'suite_idents': idents, 'control_ok': control_ok, 'control': {'exit': res['exit'], 'spawns': tags},
            'discarded': not control_ok, 'digest': digest, 'sim_seconds': sim.clock.advanced,
            'probes': {'class_suite_shared_instruction': 1, 'control_ok': 1 if control_ok else 0}, 'armed': {}, 'fired': {}}
    w.destroy()
    return hist


def execute(plan, scratch):
    if plan['spec']['cls'] == 'suite_shared_instruction':
        return _execute_suite(plan, scratch)
    w = world_mod.World(os.path.join(scratch, 'w'))
    w.populate(plan['files'])
    spec = plan['spec']
    # -- control: the undefected base must have effects in every phase
    casegen.write_case(w, plan['control'], plan.get('status'))
    ctl_plan = dict(plan, faults=[])
    sim0 = kernel.Sim(ctl_plan, w)
    with patches.installed(sim0):
        r0 = host.run_cli(sim0, ['t.case'], label='control')
    tags = [s['tag'] for s in sim0.spawns]
    control_ok = (r0['exit'] == (33 if plan.get('status') == 'FAIL' else 0) and all(t in tags for t in ('m-setup', 'atc', 'm-ba', 'm-as', 'm-cl'))
                  and len(sim0.sandboxes) == 1 and not w.tmp_entries())
    # -- the defective case
    text = casegen.write_case(w, plan['case'], plan.get('status'))
    w.populate(plan.get('files_case', {}))
    cmd = spec['cmd']
    argv = {'normal': ['t.case'], 'keep': ['--keep', 't.case'], 'act': ['--act', 't.case'],
            'symbol': ['symbol', 't.case'], 'symbol_name': ['symbol', 't.case', 'STRSYM']}[cmd]
    sim = kernel.Sim(plan, w)
    before = w.snapshot()
    with patches.installed(sim):
        res = host.run_cli(sim, argv)
        eff = _effects(sim, w, before)
        digest = kernel.digest([sim0.events, sim.events])
    hist = {'text': text, 'argv': argv, 'result': res, 'effects': eff, 'control_ok': control_ok,
            'control': {'exit': r0['exit'], 'spawns': tags},
            'discarded': not control_ok, 'digest': digest, 'sim_seconds': sim0.clock.advanced + sim.clock.advanced}
    pr = {'class_' + spec['cls'] + ('_symbol_cmd' if spec['cls'] == 'none' else ''): 1}
    if spec['phase'] == 'cleanup' and spec['pos'] == 'last':
        pr['last_line_of_cleanup'] = 1
    pr[('mode_' if cmd in ('normal', 'keep', 'act') else 'cmd_') + cmd] = 1
    if control_ok:
        pr['control_ok'] = 1
    lay_ = plan['case'].get('layout') or {}
    if lay_.get('include') and spec.get('phase') in lay_['include']:
        pr['defect_phase_partly_in_included_file'] = 1
    if lay_.get('split') or lay_.get('order'):
        pr['sections_redeclared_or_reordered'] = 1
    if plan.get('status') == 'FAIL':
        pr['case_marked_as_expected_to_fail'] = 1
    if spec['cls'] == 'act_defect':
        pr['act_defect_%s_actor' % ['command_line', 'file', 'source'][spec['variant'][0]]] = 1
    hist['probes'] = pr
    hist['armed'] = {spec['cls']: 1}
    hist['fired'] = {f['kind']: 1 for f in sim.fired}
    w.destroy()
    return hist


def oracle(plan, hist):
    V = []

    def bad(rule, expected, observed):
        V.append({'rule': 'C03.' + rule, 'expected': expected, 'observed': observed, 'spec': plan['spec']})

    if not hist['control_ok']:
        return V  # trivial: the base case does not show effects everywhere (counted as discarded)
    res = hist['result']
    spec = plan['spec']
    if res.get('hang') or res.get('escape') or res.get('exception'):
        bad('returns', 'returns an exit code', {k: res.get(k) for k in ('hang', 'escape', 'exception')})
        return V
    eff = hist['effects']
    if spec['cls'] == 'suite_shared_instruction':
        if hist['suite_idents'].get(2) != 'VALIDATION_ERROR':
            bad('identifier', 'VALIDATION_ERROR', hist['suite_idents'].get(2))
        if eff['spawns']:
            bad('no_process_started', [], eff['spawns'])
        if eff['sandboxes']:
            bad('no_sandbox_created', 0, eff['sandboxes'])
        return V
    if eff['spawns']:
        bad('no_process_started', [], eff['spawns'])
    if eff['sandboxes']:
        bad('no_sandbox_created', 0, eff['sandboxes'])
    if eff['mains']:
        bad('no_instruction_executed', [], eff['mains'])
    if eff['world_changed']:
        bad('nothing_written', [], eff['world_changed'])
    if not res['cwd_ok'] or not res['environ_ok']:
        bad('process_state_untouched', 'cwd and environ as before', {'cwd_ok': res['cwd_ok'], 'environ_ok': res['environ_ok']})
    cmd = spec['cmd']
    if cmd in ('symbol', 'symbol_name'):
        return V  # "reports without executing anything": only emptiness is required
    out, err = res['stdout'], res['stderr']
    if res['exit'] != 65:
        bad('exit_code_65', 65, {'exit': res['exit'], 'identifier': _ident(cmd, out, err)})
    else:
        ident = _ident(cmd, out, err)
        if ident not in ERR_IDENTS:
            bad('identifier', sorted(ERR_IDENTS), ident)
    if cmd == 'keep' and out != '':
        bad('keep_prints_no_sandbox', '', out)
    if cmd == 'act' and out != '':
        bad('act_prints_nothing_on_stdout', '', out)
    return V


def _ident(cmd, out, err):
    if cmd == 'normal':
        return out.strip()
    lines = err.split('\n')
    return lines[0] if lines else ''


def classify_known(plan, hist, violation, kf):
    m = kf.get('match', {})
    if violation['rule'] != m.get('rule'):
        return False
    return plan['spec'].get('cls') == m.get('cls')


def signature(plan, hist):
    s = plan['spec']
    return hist['control_ok'], (s['cls'], tuple(s['variant']) if isinstance(s['variant'], list) else s['variant'], s['phase'], s['pos'] if s['pos'] != 'rand' else 'rand',
                                s['cmd'], s.get('step'), s.get('later_phase'), s.get('layout'))


def sample_view(plan, hist):
    return {'argv': hist['argv'], 'case_text': hist['text'], 'exit': hist['result']['exit'],
            'stdout': hist['result']['stdout'], 'stderr_head': hist['result']['stderr'][:160],
            'effects': hist['effects'], 'control': hist['control']}


def normalize(plan):
    case = plan['case']
    spec = plan['spec']
    if spec['cls'] == 'suite_shared_instruction':
        return plan
    n_e = sum(1 for ph in PHASES for it in case.get(ph, []) if it.get('e'))
    need = {'defined_later': 2, 'act_syntax': 0, 'none': 0, 'act_defect': 0}.get(spec['cls'], 1)
    if spec['cls'] == 'unknown_instruction_in_second_included_file' and 'files_case' not in plan:
        return None
    if spec['cls'] == 'act_defect' and spec['variant'][1] == 'defined_later':
        need = 1
    if spec['cls'] in ('stub_symbols', 'stub_validation') and spec['phase'] == 'act':
        need = 0
    if n_e != need:
        return None
    if spec['cls'] in ('stub_symbols', 'stub_validation') and len(plan['faults']) != 1:
        return None
    if 'act' not in case or 'control' not in plan:
        return None
    for ph in ('conf',) + tuple(PHASES):
        case.setdefault(ph, [])
        plan['control'].setdefault(ph, [])
    return plan
