"""Disk-fault workload shared by C01 and C04 (sim/diskfaults.py is the seam).

A plan of this workload is a fault-free C04 plan (stubs, real instructions that create files and directories, children
that write, an action with output, assertions that make Exactly spool transformed text to disk) plus
`diskfault = {nth, errno, at}`: the n-th creation of a directory / file / temporary file that *Exactly itself* performs
inside the world fails (at = create), or the n-th write to / close of a file that Exactly opened for writing there (at =
write: a short write, then the error; at = close: the error is reported when the file is closed).  Every plan is executed twice in the same world layout: with the fault, and as its fault-free
twin (which also numbers the creation sites).  What is judged - only clauses that the two properties state for
"whatever happened" / "every kind of ending":

  C04  the call returns; in-situ observations (cwd, layout, act/ tmp/ result/) up to the instant of the fault are those
       of the model; afterwards the sandbox is removed (or, with --keep, reported and left with its layout - nothing is
       left and nothing reported when the directory structure itself could not be built); cwd, environ and home are
       as before.
  C01  a fault that fired is either reported as HARD_ERROR / INTERNAL_ERROR with the matching exit code, or invisible
       (the observable history equals the twin's); forward progress stops at the fault: the observable history is a
       prefix of the twin's non-cleanup history followed by the twin's cleanup history (all of it - cleanup runs, once -
       unless the fault struck in cleanup itself, or before the sandbox existed: then nothing runs).
"""
import copy
import os

from sim import kernel, casegen

ERRNOS = ['ENOSPC', 'ENOSPC', 'ENOSPC', 'EDQUOT', 'EIO', 'EMFILE', 'ENFILE', 'EROFS', 'EACCES']
SWEEP_BASES = 4
SWEEP_NTH = 44
CL = casegen.PREFIX['cleanup']
PROBES = ['disk_plan', 'diskfault_fired', 'diskfault_not_reached', 'disk_while_building_sandbox', 'disk_in_setup_or_act',
          'disk_in_assertions', 'disk_in_cleanup', 'disk_op_mkdir', 'disk_op_create', 'disk_op_tmpfile', 'disk_op_write', 'disk_op_close',
          'disk_reported_hard_error', 'disk_reported_internal_error', 'disk_keep', 'disk_act_mode']


SWEEP_NTH_IO = 30  # write / close faults: nth = 1..30 per base case (without --keep)


def n_sweep():
    return SWEEP_BASES * SWEEP_NTH * 2 + 2 * SWEEP_BASES * SWEEP_NTH_IO


def _extra_items(case, procs, g):
    """Items that make Exactly itself write: a stdin for the action, a file filled by a program, assertions on
    transformed output (spooled to disk when the memory buffer is small)."""
    n = 900
    if g.random() < 0.7:
        case['setup'].append({'k': 'real', 'text': 'stdin = "text for the stdin of the action"'})
    if g.random() < 0.7:
        n += 1
        ident = 'sg%d' % n
        procs[ident] = {'exit': 0, 'stdout': 'written by a program\nsecond line\n'}
        case['setup'].append({'k': 'real', 'text': 'file -rel-act g%d.txt = -stdout-from %% %s' % (n, ident),
                              'fx': [['mk', 'act', 'g%d.txt' % n]]})
    always = '( is-empty || ! equals "never the contents" )'
    for ph in ('before-assert', 'assert', 'cleanup'):
        if g.random() < 0.6:
            n += 1
            ident = '%sg%d' % (casegen.PREFIX[ph], n)
            procs[ident] = {'exit': 0, 'cat': True}
            if ph == 'assert':
                case[ph].append({'k': 'real', 'text': 'stdout -transformed-by ( char-case -to-upper | run %% %s ) %s'
                                                      % (ident, always)})
            else:
                procs[ident] = {'exit': 0, 'stdout': 'x\n'}
                case[ph].append({'k': 'real', 'text': 'file -rel-tmp h%d.txt = -stdout-from %% %s -transformed-by char-case -to-upper'
                                                      % (n, ident), 'fx': [['mk', 'tmp', 'h%d.txt' % n]]})
    if g.random() < 0.6:
        case['assert'].append({'k': 'real', 'text': 'stderr -transformed-by char-case -to-lower ' + always})


def make_plan(prop, j, seed, tier, sweep):
    """j-th disk plan of a check.  Sweep: base case j // (2 * SWEEP_NTH) x keep x nth = 1..SWEEP_NTH (ENOSPC)."""
    from engines import c04
    at = 'create'
    if sweep:
        n_create = SWEEP_BASES * SWEEP_NTH * 2
        if j < n_create:
            b, rest = divmod(j, 2 * SWEEP_NTH)
            keep, nth = bool(rest // SWEEP_NTH), rest % SWEEP_NTH + 1
        else:
            k = j - n_create
            at = 'write' if k < SWEEP_BASES * SWEEP_NTH_IO else 'close'
            b, nth = divmod(k % (SWEEP_BASES * SWEEP_NTH_IO), SWEEP_NTH_IO)
            keep, nth = False, nth + 1
        base_seed = kernel.h('disk-base', b)[:16]
        errno_name = 'ENOSPC'
    else:
        base_seed = seed
    g = kernel.stream(base_seed, 'disk-gen')
    plan = c04.random_plan(base_seed, tier, g, None, armed=False, extra=_extra_items, density=0.9 if sweep else 0.6)
    if sweep:
        plan['knobs']['mem_buff_size'] = [1, 8192, 3, 1][b % 4]
        plan['launch'] = {'elsewhere': False, 'pp': b % 4 == 3}  # (one base case is read through a preprocessor)
        plan['case'].pop('layout', None)
        plan['status'] = 'PASS'
    else:
        d = kernel.stream(seed, 'disk')
        keep = d.random() < 0.4
        nth = d.randint(1, 50) if d.random() < 0.8 else d.randint(1, 8)
        errno_name = d.choice(ERRNOS)
        at = d.choices(['create', 'write', 'close'], [55, 30, 15])[0]
        if at != 'create':
            nth = d.randint(1, 30)
    plan.update(run_seed=seed, property=prop, engine=prop.lower(), mode='disk', keep=keep, sweep=bool(sweep),
                diskfault={'nth': nth, 'errno': errno_name, 'at': at})
    plan.pop('act_mode', None)
    if not sweep:
        lg = kernel.stream(seed, 'disk-launch2')
        plan['launch'] = {'elsewhere': lg.random() < 0.3, 'pp': lg.random() < 0.3}
    if not keep and not sweep and kernel.stream(seed, 'disk-launch').random() < 0.15:
        plan['act_mode'] = True
    plan.setdefault('act_mode', False)
    return plan


# ----------------------------------------------------------------------------- execute

def execute(plan, scratch):
    from engines import c04
    hist = c04.execute_plain(plan, scratch)
    twin_plan = dict(copy.deepcopy(plan), diskfault=dict(plan['diskfault'], nth=0))
    twin = c04.execute_plain(twin_plan, scratch)
    hist['twin'] = {'obs': observable(twin), 'exit': twin['result']['exit'], 'stdout': twin['result']['stdout'],
                    'ops': twin['disk']['ops'], 'violations_of_plain_oracle': [v['rule'] for v in c04.oracle_plain(twin_plan, twin)]}
    hist['obs'] = observable(hist)
    d = hist['disk']
    pr = hist['probes']
    pr['disk_plan'] = 1
    if plan['keep']:
        pr['disk_keep'] = 1
    if plan.get('act_mode'):
        pr['disk_act_mode'] = 1
    if d['fired']:
        pr['diskfault_fired'] = 1
        pr['disk_op_' + d['op']] = 1
        pr[_where(hist)] = 1
        if hist['result']['exit'] == 128:
            pr['disk_reported_hard_error'] = 1
        if hist['result']['exit'] == 129:
            pr['disk_reported_internal_error'] = 1
        hist['armed'] = {'disk_' + plan['diskfault']['errno']: 1}
        hist['fired'] = {'disk_' + plan['diskfault']['errno']: 1}
    else:
        pr['diskfault_not_reached'] = 1
        hist['armed'] = {'disk_' + plan['diskfault']['errno']: 1}
        hist['fired'] = {}
    return hist


def observable(hist):
    return [[e['kind'], e['id']] for e in hist['events'] if e['kind'] in ('main', 'execute', 'spawn')]


def building_sandbox(hist) -> bool:
    """Did the fault strike while the directory structure of the sandbox was being built?  Judged by where the process
    stood, not by names: the sandbox directory had been asked for, and Exactly had not yet moved into it (execution
    "starts with act/ as the current directory") - whatever directories a sandbox consists of."""
    d = hist['disk']
    return bool(d['fired']) and hist['n_sandboxes'] > 0 and not d.get('in_sandbox')


def _where(hist):
    if building_sandbox(hist):
        return 'disk_while_building_sandbox'
    F = hist['disk']['seq']
    before = [e for e in hist['events'] if e['seq'] < F and e['kind'] in ('main', 'execute', 'spawn')]
    ids = [e['id'] for e in before]
    if any(i.startswith(CL) for i in ids):
        return 'disk_in_cleanup'
    if any(i.startswith(casegen.PREFIX['assert']) or i.startswith(casegen.PREFIX['before-assert']) for i in ids) or \
            'atc' in ids:
        return 'disk_in_assertions'
    return 'disk_in_setup_or_act'


# ----------------------------------------------------------------------------- oracles

def _twin_sane(plan, hist, bad):
    t = hist['twin']
    if t['violations_of_plain_oracle']:
        # the fault-free twin is an ordinary plan of the C04 workload: its own violations are reported by that workload
        bad('disk.twin_is_an_ordinary_fault_free_run', [], t['violations_of_plain_oracle'])
        return False
    return True


def oracle_c04(plan, hist):
    from engines import c04
    V = []

    def bad(rule, expected, observed):
        V.append({'rule': 'C04.' + rule, 'expected': expected, 'observed': observed})

    d = hist['disk']
    res = hist['result']
    if not d['fired'] or (hist['obs'] == hist['twin']['obs'] and res['exit'] == hist['twin']['exit']):
        # not reached - or without any consequence (tempfile falls back on a named file when O_TMPFILE fails; a mkdir
        # of parents that is repeated): an ordinary run
        return c04.oracle_plain(plan, hist)
    if res.get('hang') or res.get('escape') or res.get('exception'):
        bad('disk.returns', 'execute returns', {k: res.get(k) for k in ('hang', 'escape', 'exception')})
        return V
    if hist['n_sandboxes'] > 0:  # (a fault while the case is read prevents the execution: no sandbox, nothing to observe)
        c04.judge_in_situ(plan, hist, bad, upto=d['seq'])
    if not res['cwd_ok']:
        bad('disk.isolation.cwd_restored', res['cwd_before'], res['cwd_after'])
    if not res['environ_ok']:
        bad('disk.isolation.environ_restored', {}, res.get('environ_delta'))
    if not hist['home_unchanged']:
        bad('disk.isolation.home_untouched', 'home/ as before', 'changed')
    built = not building_sandbox(hist) and hist['n_sandboxes'] == 1
    if plan['keep'] and built:
        if res['stdout'] != hist['sbx_path'] + '\n':
            bad('disk.keep.path_reported', hist['sbx_path'] + '\n', res['stdout'])
        f = hist['final']
        if f is None or f['root'] != ['act', 'internal', 'result', 'tmp']:
            bad('disk.keep.sandbox_left_with_its_layout', ['act', 'internal', 'result', 'tmp'], f and f['root'])
        if hist['leftover'] != [hist['sbx_name']]:
            bad('disk.keep.nothing_else_left', [hist['sbx_name']], hist['leftover'])
    else:
        if hist['leftover']:
            bad('disk.removal.nothing_left_behind', [], hist['leftover'])
        if plan['keep'] and res['stdout'] != '':
            bad('disk.keep.no_path_without_sandbox', '', res['stdout'])
    return V


def oracle_c01(plan, hist):
    V = []

    def bad(rule, expected, observed):
        V.append({'rule': 'C01.' + rule, 'expected': expected, 'observed': observed})

    d = hist['disk']
    res = hist['result']
    if res.get('hang') or res.get('escape') or res.get('exception'):
        bad('disk.returns', 'execute returns', {k: res.get(k) for k in ('hang', 'escape', 'exception')})
        return V
    t = hist['twin']
    obs = hist['obs']
    if not d['fired']:
        if obs != t['obs'] or res['exit'] != t['exit']:
            bad('disk.same_plan_same_history', {'obs': t['obs'], 'exit': t['exit']}, {'obs': obs, 'exit': res['exit']})
        return V
    invisible = obs == t['obs'] and res['exit'] == t['exit']
    if invisible:
        return V  # (e.g. tempfile falls back on a named file when O_TMPFILE fails: the fault has no consequence to judge)
    before_execution = hist['n_sandboxes'] == 0
    if before_execution:
        # the fault struck while the case was read (preprocessor output, ...): no step of the case is being executed yet;
        # what prevents execution is reported as one of the error verdicts (which one is C02's business), nothing runs
        pre_conf = [e for e in t['obs'] if e[1].startswith(casegen.PREFIX['conf'])]
        if not invisible and (res['exit'] not in (65, 128, 129) or obs != pre_conf[:len(obs)]):
            bad('disk.fault_before_execution_prevents_it', 'an error verdict (exit 65 / 128 / 129), nothing executed',
                {'exit': res['exit'], 'stdout': res['stdout'][:80], 'observed': obs, 'fault': [d['op'], d['path']]})
        return V
    if not invisible:
        ident = {128: 'HARD_ERROR', 129: 'INTERNAL_ERROR'}.get(res['exit'])
        shown = res['stdout'] if not (plan['keep'] or plan.get('act_mode')) else None
        if ident is None or (shown is not None and shown != ident + '\n'):
            bad('disk.failure_is_reported_as_error', 'HARD_ERROR/128 or INTERNAL_ERROR/129 (or a history equal to the fault-free one)',
                {'exit': res['exit'], 'stdout': res['stdout'][:80], 'fault': [d['op'], d['path']]})
    pre = [e for e in t['obs'] if not e[1].startswith(CL)]
    cl = [e for e in t['obs'] if e[1].startswith(CL)]
    if building_sandbox(hist):
        expected_forms = 'nothing runs: the sandbox never existed'
        pre_conf = [e for e in pre if e[1].startswith(casegen.PREFIX['conf'])]
        ok = obs == pre_conf
    else:
        expected_forms = 'prefix of %s, then all of %s (or, when all of the former ran, a prefix of the latter)' % (pre, cl)
        k = 0
        while k < len(pre) and k < len(obs) and obs[k] == pre[k]:
            k += 1
        rest = obs[k:]
        if k < len(pre):
            # (when the case is halted while it stands in a directory that a child has just removed, the `cd` that would
            # have followed is skipped and a cleanup instruction that needs the current directory fails by itself: a
            # prefix of the cleanup history is then all that can be asked for - found by the thorough tier)
            ok = rest == cl or (bool(d.get('cwd_gone')) and rest == cl[:len(rest)])
        else:
            ok = rest == cl[:len(rest)]
    if not ok:
        bad('disk.halt_at_the_fault_then_cleanup_once', expected_forms, {'observed': obs, 'fault': [d['op'], d['path'], d['n']]})
    return V


def signature(plan, hist):
    d = hist['disk']
    return bool(d['fired']), ('disk', plan['keep'], bool(plan.get('act_mode')), plan['diskfault']['errno'], d['op'], _site(d),
                             _where(hist) if d['fired'] else None, hist['result']['exit'], len(hist['obs']))


def _site(d):
    """Which kind of file the fault struck (the name without the numbers the sandbox and the instructions give it)."""
    import re
    return re.sub(r'\d+', 'N', (d.get('path') or '').split('/')[-1]) if d.get('fired') else None


def sample_view(plan, hist):
    d = hist['disk']
    return {'case_text': hist['text'], 'argv': hist['result']['argv'], 'diskfault': plan['diskfault'],
            'fired_at': [d['op'], d['path'], d['n']] if d['fired'] else None, 'creation_sites_fault_free': len(hist['twin']['ops']),
            'exit': hist['result']['exit'], 'observable_history': hist['obs'], 'fault_free_history': hist['twin']['obs'],
            'leftover_in_tmp_parent': hist['leftover']}
