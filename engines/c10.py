"""C10 — The action to check gets the denoted argv/stdin/cwd; its outcome is captured.

The subject is the conversation between Exactly and a peer process.  The simulated child is an in-process fake
peer that records precisely what it was given (argv, shell flag, stdin as the fd holds it, cwd) and answers with a
scripted outcome (exit code 0..255, stdout, stderr, spawn failure).  Workload: a bounded grammar of PROGRAM uses
(drivers, argument kinds, -stdin sources, program-symbol chains, transformations) placed wherever a program can be
run; oracle: a reference model of denotation evaluated on the plan.
"""
import os
import sys

from sim import kernel, world as world_mod, patches, host

PROPERTY = 'C10'
LEVEL = 'exploration'
RULE_TEXT = ('runs = a sweep over every place (24) x every driver kind (6) with fixed arguments, all exit codes 0..255 '
             'for the capture rules, the exit-code policy table (phase x form x ignore flag x exit code), then seeded '
             'random programs: symbol chains 0..3 deep, <= 5 arguments per link from 12 argument kinds, <= 3 stdin '
             'parts from 5 source kinds, optional cd before the use, optional setup stdin for the ATC. Non-trivial = the '
             'process under observation was spawned and compared with the model; distinct = (place, driver kind, chain '
             'depth, multiset of argument kinds, stdin source kinds, exit-code class).')
REACH_PROBES = ['after_polluting_case_in_a_suite', 'second_use_of_program_symbol', 'setup_stdin_from_program', 'place_act_command_line', 'place_act_file_interpreter', 'place_act_source_interpreter', 'place_act_null',
                'place_run', 'place_file_stdout_from', 'place_exit_code_from', 'place_stdout_from', 'place_transformer',
                'place_matcher', 'driver_sys', 'driver_python', 'driver_exe', 'driver_exe_rel', 'driver_shell',
                'driver_sym', 'chain_depth_2', 'chain_depth_3', 'stdin_accumulated', 'stdin_from_program',
                'setup_stdin_for_atc', 'list_symbol_spliced', 'empty_string_argument', 'text_until_eol', 'cd_before_use',
                'nonzero_exit_fail_in_assert', 'nonzero_exit_hard_error', 'ignore_exit_code', 'spawn_failure',
                'capture_exit_code_255', 'transformation_on_output', 'policy_after_ignoring_neighbour',
                'policy_after_strict_neighbour', 'policy_after_ignoring_case', 'policy_stderr_empty',
                'policy_stderr_not_utf8']

WORDS = ['a', 'bb', 'c-d', 'x.y', 'k=v', '7', 'A_B', 'p/q', 'm:n', 'u,v']
SYMDEFS = ["def string STR1 = s1val", "def string STR2 = 'two words'", "def list LST1 = l1 'l 2' l3", "def list LST0 =",
           "def path PTH1 = -rel-act pdir/pf",
           # a path relative to the current directory (the default relativity): it denotes the file under the directory that
           # is current at the USE - it is used once right here (by a warm-up program) and again wherever the plan says,
           # possibly after a `cd`
           "def path PCD1 = cdfile.txt", "% warm @[PCD1]@"]
SYMS = {'STR1': ('string', 's1val'), 'STR2': ('string', 'two words'), 'LST1': ('list', ['l1', 'l 2', 'l3']),
        'LST0': ('list', []), 'PTH1': ('path', '$SBX/act/pdir/pf'), 'PCD1': ('path', '$CWD/cdfile.txt')}
PHASES = ['setup', 'before-assert', 'assert', 'cleanup']
PLACES = ([('run', ph) for ph in PHASES] + [('run_ignore', ph) for ph in PHASES] +
          [('act_command_line', 'act'), ('act_file_interpreter', 'act'), ('act_source_interpreter', 'act'),
           ('act_null', 'act')] +
          [('file_stdout_from', ph) for ph in PHASES] + [('file_stdout_from_ignore', 'setup'), ('file_stderr_from', 'setup')] +
          [('exit_code_from', 'assert'), ('stdout_from', 'assert'), ('stderr_from', 'assert'), ('transformer', 'setup'),
           ('transformer', 'assert'), ('matcher', 'assert'), ('file_matcher', 'assert'), ('stdout_equals_program', 'assert')])
DRIVERS = ['sys', 'python', 'exe', 'exe_rel', 'shell', 'sym']


def sym_str(name):
    t = SYMS[name]
    if t[0] == 'list':
        return ' '.join(t[1])
    return t[1]


def gen_arg(g, simple=False):
    """-> {'syn': syntax, 'val': [argv elements], 'kind': ...}"""
    kinds = ['word', 'word', 'soft', 'hard', 'symref', 'symref', 'softsym', 'softref', 'mixed', 'empty', 'existing',
             'optionlike', 'reserved', 'backslash']
    if simple == 'actor':
        kinds = ['word', 'word', 'soft', 'symref', 'softsym', 'softref', 'mixed', 'empty', 'optionlike', 'backslash']
    elif simple:
        kinds = ['word', 'optionlike']
    k = g.choice(kinds)
    if k == 'word':
        w = g.choice(WORDS)
        return {'syn': w, 'val': [w], 'kind': k}
    if k == 'optionlike':
        w = g.choice(['-x', '--long', '-k=v', '--', '-'])
        return {'syn': w, 'val': [w], 'kind': k}
    if k == 'reserved':
        w = g.choice(['-stdin', '-existing-file', '=', '(', ')', '<<EOF', '-python', '%', '@', '$', ':>', '-transformed-by'])
        q = g.choice(['"', "'"])
        return {'syn': q + w + q, 'val': [w], 'kind': k}
    if k == 'soft':
        w = ' '.join(g.sample(WORDS, g.randint(1, 3)))
        return {'syn': '"%s"' % w, 'val': [w], 'kind': k}
    if k == 'hard':
        w = ' '.join(g.sample(WORDS + ['@[STR1]@', '"'], g.randint(1, 3)))
        return {'syn': "'%s'" % w, 'val': [w], 'kind': k}
    if k == 'symref':
        n = g.choice(sorted(SYMS))
        t = SYMS[n]
        if t[0] == 'list':
            return {'syn': '@[%s]@' % n, 'val': list(t[1]), 'kind': 'listref'}
        return {'syn': '@[%s]@' % n, 'val': [t[1]], 'kind': k}
    if k == 'softsym':
        n = g.choice(sorted(SYMS))
        return {'syn': '"pre @[%s]@ post"' % n, 'val': ['pre %s post' % sym_str(n)], 'kind': k}
    if k == 'backslash':
        # backslashes are ordinary characters inside hard quotes - also \\[ and \\\\, which [act] un-escapes only when they are
        # the first non-space characters of a line
        w = g.choice(['x\\[y]', 'C:\\\\dir', 'a\\b', '\\[', 'p\\\\[q'])
        return {'syn': "'%s'" % w, 'val': [w], 'kind': k}
    if k == 'softref':
        # a soft-quoted token that is nothing but one reference is a string, whatever the type of the symbol: a list gives
        # ONE argument (its elements separated by single spaces; the empty list gives one empty argument)
        n = g.choice(sorted(SYMS))
        return {'syn': '"@[%s]@"' % n, 'val': [sym_str(n)], 'kind': k}
    if k == 'mixed':
        n = g.choice(['STR1', 'STR2', 'PTH1'])
        return {'syn': 'x@[%s]@y' % n, 'val': ['x%sy' % sym_str(n)], 'kind': k}
    if k == 'empty':
        q = g.choice(['""', "''"])
        return {'syn': q, 'val': [''], 'kind': k}
    if k == 'existing':
        v = g.choice([('-existing-file exe1', '$HOME/exe1'), ('-existing-dir -rel-home hd', '$HOME/hd'),
                      ('-existing-path -rel-home exe2', '$HOME/exe2'), ('-existing-file -rel-home data.txt', '$HOME/data.txt')])
        return {'syn': v[0], 'val': [v[1]], 'kind': k}
    raise KeyError(k)


def gen_args(g, maxn=5, simple=False):
    args = [gen_arg(g, simple) for _ in range(g.randint(0, maxn))]
    if args and not simple and g.random() < 0.12:
        rest = g.choice(["rest of the 'line' \"here\"", 'tail  with   spaces', '@[STR1]@ tail'])
        val = rest.replace('@[STR1]@', 's1val')
        args.append({'syn': ':> ' + rest, 'val': [val], 'kind': 'until_eol'})
    return args


def gen_stdin(g, procs, counter):
    k = g.choice([None, None, None, 'str', 'here', 'symstr', 'file', 'prog'])
    if k is None:
        return None
    if k == 'str':
        w = ' '.join(g.sample(WORDS, 2))
        return {'syn': ['-stdin "%s"' % w], 'val': w, 'kind': k}
    if k == 'here':
        w = g.choice(WORDS)
        return {'syn': ['-stdin <<EOF', w, 'EOF'], 'val': w + '\n', 'kind': k}
    if k == 'symstr':
        return {'syn': ['-stdin @[STR2]@'], 'val': 'two words', 'kind': k}
    if k == 'file':
        return {'syn': ['-stdin -contents-of -rel-home data.txt'], 'val': 'data line 1\ndata line 2\n', 'kind': k}
    counter[0] += 1
    tag = 'sp%d' % counter[0]
    out = 'from-%s\n' % tag
    procs[tag] = {'exit': 0, 'stdout': out}
    return {'syn': ['-stdin -stdout-from % ' + tag], 'val': out, 'kind': k, 'tag': tag}


ARG_STYLE = [False]


def gen_program(g, depth, defs, procs, counter, allow_stdin=True, allow_shell=True, target_tag='T'):
    """Returns a program *tree* {'k': driver kind, 'args': [...], 'stdin': {...}|None, 'sub': tree|None}; syntax lines,
    symbol definitions and the flattened model are derived from it (materialize), so that a shrinking edit of the tree
    keeps them in step."""
    kinds = ['sys', 'sys', 'python', 'exe', 'exe_rel'] + (['shell'] if allow_shell else []) + (['sym', 'sym', 'sym'] if depth > 0 else [])
    k = g.choice(kinds)
    return _program_of_kind(g, k, depth, defs, procs, counter, allow_stdin, allow_shell, target_tag)


def _program_of_kind(g, k, depth, defs, procs, counter, allow_stdin, allow_shell, target_tag, args=None):
    stdin = gen_stdin(g, procs, counter) if allow_stdin else None
    if k == 'sym':
        sub = gen_program(g, depth - 1, defs, procs, counter, allow_stdin, allow_shell, target_tag)
        shell = _innermost(sub)['k'] == 'shell'
        a = args if args is not None else gen_args(g, simple=shell or ARG_STYLE[0])
        return {'k': 'sym', 'args': a, 'stdin': stdin, 'sub': sub}
    a = args if args is not None else gen_args(g, simple=(k == 'shell') or ARG_STYLE[0])
    if k == 'shell':
        a = []
    return {'k': k, 'args': a, 'stdin': stdin, 'sub': None}


def _innermost(tree):
    while tree.get('sub'):
        tree = tree['sub']
    return tree


def materialize_tree(tree, defs, target_tag='T'):
    """tree -> {'lines': [...], 'model': {...}}; appends the needed `def program` blocks to defs."""
    stdin = tree.get('stdin')
    k = tree['k']
    if k == 'sym':
        sub = materialize_tree(tree['sub'], defs, target_tag)
        sname = 'PROG%d' % len(defs)
        sl = sub['lines']
        defs.append(['def program %s = %s' % (sname, sl[0])] +
                    [l if _in_heredoc(sl, i) else '  ' + l for i, l in enumerate(sl[1:], 1)])
        sm = sub['model']
        a = tree['args'] if not sm['shell'] else [x for x in tree['args'] if x['kind'] in ('word', 'optionlike')]
        m = {'shell': sm['shell'], 'head': sm['head'], 'line': sm.get('line'), 'args': sm['args'] + a,
             'stdin': sm['stdin'] + ([stdin] if stdin else []), 'driver': sm['driver'], 'depth': sm['depth'] + 1,
             'use_symbol': sname, 'use_n_args': len(a), 'use_has_stdin': bool(stdin)}
        first = '@ %s %s' % (sname, ' '.join(x['syn'] for x in a))
    else:
        a = tree['args']
        if k == 'sys':
            head, first = [target_tag], '%% %s' % target_tag
        elif k == 'python':
            head, first = ['$PYTHON', target_tag], '-python %s' % target_tag
        elif k == 'exe':
            head, first = ['$HOME/exe1', target_tag], 'exe1 %s' % target_tag
        elif k == 'exe_rel':
            head, first = ['$HOME/exe2', target_tag], '-rel-home exe2 %s' % target_tag
        if k == 'shell':
            line = '%s some "quoted text" | more $HOME' % target_tag
            m = {'shell': True, 'head': None, 'line': line, 'args': [], 'stdin': [stdin] if stdin else [], 'driver': k,
                 'depth': 0}
            first = '$ ' + line
        else:
            m = {'shell': False, 'head': head, 'line': None, 'args': a, 'stdin': [stdin] if stdin else [], 'driver': k,
                 'depth': 0}
            first = (first + ' ' + ' '.join(x['syn'] for x in a)).rstrip()
    lines = [first.rstrip()]
    if stdin:
        lines.extend(stdin['syn'])
    return {'lines': lines, 'model': m}


def materialized(plan):
    """The plan with 'prog' ({'lines', 'model'}) and 'defs' derived from plan['tree']."""
    if plan.get('kind') != 'denotation' or 'prog' in plan:
        return plan
    p2 = dict(plan)
    defs = []
    if plan.get('tree') is None:
        p2['prog'] = {'lines': [], 'model': None}
    else:
        p2['prog'] = materialize_tree(plan['tree'], defs)
    p2['defs'] = defs
    return p2


def total_runs(tier):
    return len(sweep_specs()) + (2500 if tier == 'quick' else 350000)


_SW = {}


def sweep_specs():
    if 's' not in _SW:
        sp = []
        for place in PLACES:
            for d in DRIVERS:
                sp.append(('place', place, d))
        for code in range(256):
            sp.append(('capture', code))
        for ph in PHASES:
            for form in ('run', '%', '$', 'run_ignore', 'file_stdout_from', 'file_stdout_from_ignore', 'file_stderr_from',
                         'file_stderr_from_ignore'):
                for code in (0, 1, 3, 255):
                    sp.append(('policy', ph, form, code))
            sp.append(('policy', ph, 'run', 'ENOENT'))
            sp.append(('policy', ph, 'file_stdout_from_ignore', 'ENOENT'))
            # the policy belongs to the instruction that states it: a neighbour (same phase) or an earlier case of the
            # same process (suite) with the opposite policy changes nothing
            for form in ('run', '%', '$', 'file_stdout_from', 'file_stderr_from'):
                sp.append(('policy', ph, form, 3, 'after_ignoring_neighbour'))
                sp.append(('policy', ph, form, 3, 'after_ignoring_case'))
            for form in ('run_ignore', 'file_stdout_from_ignore'):
                sp.append(('policy', ph, form, 3, 'after_strict_neighbour'))
            # ... and has nothing to do with what the program wrote on stderr (nothing; bytes that are not UTF-8)
            for form in ('run', '%', '$', 'file_stdout_from', 'file_stderr_from', 'run_ignore'):
                sp.append(('policy', ph, form, 3, 'stderr_empty'))
                sp.append(('policy', ph, form, 3, 'stderr_not_utf8'))
        _SW['s'] = sp
    return _SW['s']


def make_plan(i, master, tier):
    seed = kernel.run_seed(master, PROPERTY, i)
    g = kernel.stream(seed, 'gen')
    sp = sweep_specs()
    if i < len(sp):
        s = sp[i]
        if s[0] == 'place':
            return build(seed, tier, g, place=s[1], driver=s[2], sweep=True)
        if s[0] == 'capture':
            return build(seed, tier, g, place=('act_command_line', 'act'), driver='sys', exit_code=s[1], sweep=True,
                         capture=True)
        return build_policy(seed, tier, g, s[1], s[2], s[3], s[4] if len(s) > 4 else None)
    return build(seed, tier, g, place=g.choice(PLACES), driver=None)


def build_policy(seed, tier, g, ph, form, code, context=None):
    T = {'exit': code if code != 'ENOENT' else 0, 'stdout': 'O\n', 'stderr': 'E\n'}
    if code == 'ENOENT':
        T['spawn_error'] = 'ENOENT'
    text = {'run': 'run % T', '%': '% T', '$': '$ T', 'run_ignore': 'run -ignore-exit-code % T',
            'file_stdout_from': 'file x.txt = -stdout-from % T',
            'file_stdout_from_ignore': 'file x.txt = -stdout-from -ignore-exit-code % T',
            'file_stderr_from': 'file x.txt = -stderr-from % T',
            'file_stderr_from_ignore': 'file x.txt = -stderr-from -ignore-exit-code % T'}[form]
    ignore = form.endswith('ignore')
    procs = {'T': T, 'atc': {'exit': 0}}
    pre = []
    if context == 'after_ignoring_neighbour':
        pre = ['run -ignore-exit-code % T0', 'file y0.txt = -stdout-from -ignore-exit-code % T0']
        procs['T0'] = {'exit': 5, 'stdout': 'O0\n'}
    elif context == 'after_strict_neighbour':
        pre = ['run % T0', 'file y0.txt = -stdout-from % T0']
        procs['T0'] = {'exit': 0, 'stdout': 'O0\n'}
    elif context == 'after_ignoring_case':
        procs['polluter-fail'] = {'exit': 5, 'stdout': 'O0\n'}
    elif context == 'stderr_empty':
        T['stderr'] = ''
    elif context == 'stderr_not_utf8':
        T['stderr'] = 'bad \udce9 byte\n'  # (written as the single byte 0xE9)
    return {'format': 1, 'property': PROPERTY, 'engine': 'c10', 'run_seed': seed, 'tier': tier,
            'knobs': {'mem_buff_size': g.choice([1, 8192])}, 'entry': 'cli', 'kind': 'policy', 'phase': ph, 'form': form,
            'ignore': ignore, 'code': code, 'text': text, 'procs': procs, 'sweep': True, 'pre': pre,
            'context': context, 'after_polluter': context == 'after_ignoring_case'}


def build(seed, tier, g, place, driver, exit_code=None, sweep=False, capture=False):
    pkind, ph = place
    procs = {}
    counter = [0]
    defs = []
    plain = pkind in ('transformer', 'matcher', 'file_matcher', 'act_file_interpreter', 'act_source_interpreter')
    allow_shell = pkind not in ('act_file_interpreter', 'act_source_interpreter')
    ARG_STYLE[0] = 'actor' if pkind in ('act_file_interpreter', 'act_source_interpreter') else False
    if pkind == 'act_null':
        tree = None
    elif driver is None and not allow_shell:
        # ACT-INTERPRETER: PATH | % STRING | -python (no symbol reference, no shell command)
        tree = _program_of_kind(g, g.choice(['sys', 'python', 'exe', 'exe_rel']), 0, defs, procs, counter, False, False, 'T')
    elif driver is None:
        tree = gen_program(g, g.choice([0, 1, 2, 3]), defs, procs, counter, allow_stdin=not plain, allow_shell=allow_shell)
    else:
        if driver in ('shell', 'sym') and not allow_shell:
            driver = 'sys'
        fixed = [{'syn': 'a1', 'val': ['a1'], 'kind': 'word'}, {'syn': '"b c"', 'val': ['b c'], 'kind': 'soft'},
                 {'syn': '@[LST1]@', 'val': ['l1', 'l 2', 'l3'], 'kind': 'listref'}]
        tree = _program_of_kind(g, driver, 1 if driver == 'sym' else 0, defs, procs, counter, not plain, allow_shell, 'T',
                                args=None if driver in ('shell', 'sym') else fixed)
    prog = materialize_tree(tree, []) if tree is not None else {'lines': [], 'model': None}
    code = exit_code if exit_code is not None else g.choice([0, 0, 0, 1, 2, 3, 127, 255])
    if pkind in ('file_stdout_from', 'file_stderr_from', 'stdout_from', 'stderr_from', 'transformer',
                 'stdout_equals_program', 'act_file_interpreter', 'act_source_interpreter') and exit_code is None:
        code = 0
    out_text = g.choice(['out-%s\n' % seed[:4], 'two\nlines\n', '', 'no newline at end'])
    err_text = g.choice(['', 'err-%s\n' % seed[:4]])
    procs['T'] = {'exit': code, 'stdout': out_text, 'stderr': err_text}
    for alias in ('exe1', 'exe2', os.path.basename(sys.executable)):
        procs[alias] = procs['T']  # the process is looked up by the basename of argv[0]
    procs.setdefault('atc', {'exit': 0})
    setup_stdin = None
    if pkind == 'act_command_line' and g.random() < 0.4:
        setup_stdin = g.choice(['SETUP-STDIN', 'line1\nline2\n', '@PROG'])
        if setup_stdin == '@PROG':
            procs['ssp'] = {'exit': 0, 'stdout': 'from-setup-stdin-program\n'}
    cd = g.random() < 0.3 and pkind != 'act_null'
    # (a -transformed-by line after a -stdin line would bind to the stdin's TEXT-SOURCE: only without stdin here)
    transform = g.random() < (0.5 if pkind == 'stderr_from' else 0.3) and \
        pkind in ('file_stdout_from', 'stdout_from', 'stderr_from', 'act_command_line') and len(prog['lines']) == 1
    m_ = prog['model']
    # the same program symbol used a second time, later, with other arguments: nothing of the first use may stick
    second_use = bool(m_ and m_.get('use_symbol') and not m_['shell'] and ph != 'cleanup' and g.random() < 0.5 and
                      pkind not in ('act_file_interpreter', 'act_source_interpreter'))
    # the case runs as the second case of a suite, after a case that sets stdin / env / cwd / timeout and defines program
    # symbols of the same names: the process must still get exactly what THIS case denotes
    after_polluter = (not sweep) and g.random() < 0.2
    plan = {'format': 1, 'property': PROPERTY, 'engine': 'c10', 'run_seed': seed, 'tier': tier, 'second_use': second_use,
            'after_polluter': after_polluter,
            'knobs': {'mem_buff_size': g.choice([1, 5, 8192])}, 'entry': 'cli', 'kind': 'denotation',
            'place': pkind, 'phase': ph, 'tree': tree, 'procs': procs, 'setup_stdin': setup_stdin,
            'cd': cd, 'transform': transform, 'capture': capture, 'sweep': sweep,
            'act_source': ['source line one', '  indented "two"'] if pkind == 'act_source_interpreter' else None,
            # (the last argument may be given as text-until-end-of-line: everything after ':>', verbatim)
            'act_file_args': g.choice(["a1 'a 2'", "a1 'a 2' :> text until  the end", ":> x  y z"])
            if pkind == 'act_file_interpreter' else None,
            # a file need not end with a new-line: the last line of the case is what it is all the same
            'no_final_newline': g.random() < 0.2}
    return plan


# ----------------------------------------------------------------------------- rendering

def render(plan):
    plan = materialized(plan)
    if plan['kind'] == 'policy':
        body = {ph: [] for ph in PHASES}
        body[plan['phase']].extend(plan.get('pre') or [])
        body[plan['phase']].append(plan['text'])
        return ''.join('[%s]\n%s\n' % (p, '\n'.join(body[p])) for p in ('setup',)) + '[act]\n% atc\n' + \
            ''.join('[%s]\n%s\n' % (p, '\n'.join(body[p])) for p in ('before-assert', 'assert', 'cleanup'))
    pk, ph = plan['place'], plan['phase']
    prog = plan['prog']
    lines = {p: [] for p in ['conf'] + PHASES}
    act = ['% atc']
    setup = lines['setup']
    setup.extend(SYMDEFS)
    setup.append('dir -rel-act pdir')
    setup.append('file g.txt = "g-contents"')
    for d in plan['defs']:
        setup.extend(d)
    if plan['setup_stdin'] == '@PROG':
        setup.append('stdin = -stdout-from % ssp')
    elif plan['setup_stdin'] is not None:
        if '\n' in plan['setup_stdin']:
            setup.append('stdin = <<EOF\n%sEOF' % plan['setup_stdin'])
        else:
            setup.append('stdin = "%s"' % plan['setup_stdin'])
    pl = prog['lines']
    indented = [pl[0]] + ['  ' + l if not _in_heredoc(pl, i) else l for i, l in enumerate(pl[1:], 1)] if pl else []
    target = lines[ph] if ph != 'act' else None
    cd_line = 'cd -rel-act pdir'
    T = plan['procs']['T']
    exp_out = T['stdout'].upper() if plan['transform'] else T['stdout']
    tr = ['  -transformed-by char-case -to-upper'] if plan['transform'] else []
    if pk in ('run', 'run_ignore'):
        if plan['cd']:
            target.append(cd_line)
        target.append('run %s%s' % ('-ignore-exit-code ' if pk == 'run_ignore' else '', indented[0]))
        target.extend(indented[1:])
    elif pk == 'act_command_line':
        if plan['cd']:
            setup.append(cd_line)
        act = indented + tr
        a = lines['assert']
        a.append('exit-code == %d' % T['exit'])
        a.append('stdout ' + _equals(exp_out))
        a.append('stderr ' + _equals(T['stderr']))
    elif pk == 'act_file_interpreter':
        lines['conf'].append('actor = file ' + indented[0])
        if plan['cd']:
            setup.append(cd_line)
        act = ['src.py ' + plan['act_file_args']]
        lines['assert'].append('exit-code == %d' % T['exit'])
    elif pk == 'act_source_interpreter':
        lines['conf'].append('actor = source ' + indented[0])
        if plan['cd']:
            setup.append(cd_line)
        act = plan['act_source']
        lines['assert'].append('exit-code == %d' % T['exit'])
    elif pk == 'act_null':
        lines['conf'].append('actor = null')
        act = ['anything at all']
        lines['assert'].append('exit-code == 0')
        lines['assert'].append('stdout is-empty')
    elif pk in ('file_stdout_from', 'file_stdout_from_ignore', 'file_stderr_from'):
        if plan['cd']:
            target.append(cd_line)
        opt = {'file_stdout_from': '-stdout-from', 'file_stdout_from_ignore': '-stdout-from -ignore-exit-code',
               'file_stderr_from': '-stderr-from'}[pk]
        target.append('file -rel-act out.txt = %s %s' % (opt, indented[0]))
        target.extend(indented[1:])
        target.extend(tr)
    elif pk == 'exit_code_from':
        if plan['cd']:
            target.append(cd_line)
        target.append('exit-code -from ' + indented[0])
        target.extend(indented[1:])
        target.append('  == %d' % T['exit'])
    elif pk in ('stdout_from', 'stderr_from'):
        if plan['cd']:
            target.append(cd_line)
        target.append('%s -from %s' % ('stdout' if pk == 'stdout_from' else 'stderr', indented[0]))
        target.extend(indented[1:])
        target.extend(tr)
        # the transformation of the program applies to the channel that is looked at
        want = exp_out if pk == 'stdout_from' else (T['stderr'].upper() if plan['transform'] else T['stderr'])
        target.append('  ' + _equals(want))
    elif pk == 'transformer':
        if plan['cd']:
            target.append(cd_line)
        target.append('file -rel-act out.txt = "input text" -transformed-by run ' + indented[0])
    elif pk == 'matcher':
        if plan['cd']:
            target.append(cd_line)
        target.append('contents -rel-act g.txt : run ' + indented[0])
    elif pk == 'file_matcher':
        if plan['cd']:
            target.append(cd_line)
        target.append('exists -rel-act g.txt : run ' + indented[0])
    elif pk == 'stdout_equals_program':
        if plan['cd']:
            target.append(cd_line)
        target.append('stdout equals -stdout-from ' + indented[0])
        target.extend(indented[1:])
    if plan.get('second_use'):
        lines['cleanup'].append('cd -rel-act .')
        lines['cleanup'].append('run -ignore-exit-code @ %s second-use' % prog['model']['use_symbol'])
    out = []
    if lines['conf']:
        out.append('[conf]')
        out.extend(lines['conf'])
    out.append('[setup]')
    out.extend(lines['setup'])
    out.append('[act]')
    out.extend(act)
    for p in ('before-assert', 'assert', 'cleanup'):
        out.append('[%s]' % p)
        out.extend(lines[p])
    if plan.get('no_final_newline') and out[-1] != 'EOF':
        return '\n'.join(out)
    return '\n'.join(out) + '\n'


def _in_heredoc(lines, i):
    inside = False
    for j, l in enumerate(lines):
        if j == i:
            return inside or l == 'EOF'
        if l.endswith('<<EOF'):
            inside = True
        elif l == 'EOF':
            inside = False
    return False


def _equals(text):
    if text == '' or text.endswith('\n'):
        return 'equals <<EOF\n%sEOF' % text
    return 'equals "%s"' % text


def _heredoc(text):
    if text == '':
        return ''
    return text if text.endswith('\n') else text + '\n'


# ----------------------------------------------------------------------------- execute

def execute(plan, scratch):
    plan = materialized(plan)
    w = world_mod.World(os.path.join(scratch, 'w'))
    text = render(plan)
    w.write('home/t.case', text)
    w.write('home/exe1', '#!/bin/sh\n', mode=0o755)
    w.write('home/exe2', '#!/bin/sh\n', mode=0o755)
    w.write('home/src.py', 'print(1)\n')
    w.write('home/data.txt', 'data line 1\ndata line 2\n')
    os.makedirs(os.path.join(w.home, 'hd'))
    sim = kernel.Sim(plan, w)
    polluted = plan.get('after_polluter')
    if polluted:
        w.write('home/polluter.case', POLLUTER if plan['kind'] != 'policy' else POLICY_POLLUTER)
        w.write('home/s.suite', '[cases]\npolluter.case\nt.case\n')
    with patches.installed(sim):
        if polluted:
            res = host.run_cli(sim, ['suite', 's.suite'], tap=True)
            ident = ''
            for line in res['stdout'].split('\n'):
                if 't.case' in line and line.strip().split():
                    ident = line.strip().split()[-1]
            res['stdout'] = ident + '\n'
        else:
            res = host.run_cli(sim, ['t.case'])
        leftover = w.tmp_entries()
        digest = sim.digest()
    sbx = sim.sandboxes[-1] if sim.sandboxes else ''

    def sub(x):
        if isinstance(x, str):
            return x.replace(sbx, '$SBX').replace(w.home, '$HOME').replace(sys.executable, '$PYTHON') if sbx else \
                x.replace(w.home, '$HOME').replace(sys.executable, '$PYTHON')
        return [sub(e) for e in x]

    spawns = [{'tag': _target_tag(s), 'raw_tag': s['tag'], 'args': sub(s['args']), 'shell': s['shell'], 'stdin': s['stdin'],
               'cwd': sub(s['cwd']), 'error': s.get('spawn_error'), 'exit': s['exit'],
               'files': {sub(k): v for k, v in s['files'].items()}} for s in sim.spawns]
    hist = {'text': text, 'result': res, 'spawns': spawns, 'leftover': leftover, 'digest': digest,
            'sim_seconds': sim.clock.advanced}
    _probes(plan, hist)
    w.destroy()
    return hist


POLLUTER = '''[setup]
stdin = "polluter-stdin"
env POLLUTED = yes
dir -rel-act pdir
cd -rel-act pdir
timeout = 7
def program PROG0 = % polluter-prog polluter-arg
  -stdin "polluter-program-stdin"
def program PROG1 = @ PROG0 more
def string STR1 = polluted
[act]
@ PROG1 polluter-act-arg
'''


_PP = 'run -ignore-exit-code % polluter-fail\nfile pN.txt = -stdout-from -ignore-exit-code % polluter-fail\n'
POLICY_POLLUTER = ('[setup]\n' + _PP.replace('pN', 'p0') + '[act]\n% atc\n' + '[before-assert]\n' + _PP.replace('pN', 'p1') +
                   '[assert]\n' + _PP.replace('pN', 'p2') + '[cleanup]\n' + _PP.replace('pN', 'p3'))


def _target_tag(s):
    a = s['args']
    if isinstance(a, str):
        return a.split()[0] if a.split() else ''
    if s['tag'] in ('exe1', 'exe2') or a[0] == sys.executable:
        return a[1] if len(a) > 1 else s['tag']
    return s['tag']


def expected_spawn(plan):
    plan = materialized(plan)
    m = plan['prog']['model']
    pk = plan['place']
    stdin = ''.join(p['val'] for p in m['stdin'])
    if pk == 'act_command_line' and plan['setup_stdin'] is not None:
        stdin += 'from-setup-stdin-program\n' if plan['setup_stdin'] == '@PROG' else plan['setup_stdin']
    if pk == 'transformer':
        stdin = 'input text'
    if pk == 'matcher':
        stdin = 'g-contents'
    cwd = '$SBX/act/pdir' if plan['cd'] else '$SBX/act'
    args = [v.replace('$CWD', cwd) for a in m['args'] for v in a['val']]
    if m['shell']:
        line = m['line']
        if pk == 'file_matcher':
            args = args + ['$SBX/act/g.txt']
        if args:
            line = ' '.join([line] + args)
        return {'shell': True, 'args': line, 'stdin': stdin, 'cwd': cwd}
    argv = list(m['head']) + args
    if pk == 'act_file_interpreter':
        fa = plan.get('act_file_args') or "a1 'a 2'"
        argv = argv + ['$HOME/src.py'] + (['a1', 'a 2'] if fa.startswith('a1') else []) + \
            ([fa.split(':> ', 1)[1]] if ':> ' in fa else [])
    if pk == 'file_matcher':
        argv = argv + ['$SBX/act/g.txt']
    return {'shell': False, 'args': argv, 'stdin': stdin, 'cwd': cwd}


def oracle(plan, hist):
    plan = materialized(plan)
    V = []

    def bad(rule, expected_, observed):
        V.append({'rule': 'C10.' + rule, 'expected': expected_, 'observed': observed})

    res = hist['result']
    if res.get('hang') or res.get('escape') or res.get('exception'):
        bad('returns', 'returns', {k: res.get(k) for k in ('hang', 'escape', 'exception')})
        return V
    ident = res['stdout'].strip()
    if plan['kind'] == 'policy':
        code, ph = plan['code'], plan['phase']
        if code == 'ENOENT':
            want = 'HARD_ERROR'
        elif code == 0 or plan['ignore']:
            want = 'PASS'
        elif plan['form'] in ('run', '%', '$'):
            want = 'FAIL' if ph == 'assert' else 'HARD_ERROR'
        else:
            want = 'HARD_ERROR'
        if ident != want:
            bad('exit_code_policy', {'phase': ph, 'form': plan['form'], 'exit': code, 'verdict': want}, ident)
        n = sum(1 for s in hist['spawns'] if s['tag'] == 'T')
        if plan['form'] in ('run', '%', '$', 'run_ignore') and n != 1:
            bad('executed_once_and_only_once', 1, n)
        return V
    pk = plan['place']
    T = plan['procs']['T']
    target = [s for s in hist['spawns'] if s['tag'] == 'T']
    if pk == 'act_null':
        own = [s for s in hist['spawns'] if s['raw_tag'] not in ('polluter-prog', 'warm')]
        if own:
            bad('null_actor_starts_nothing', [], [s['tag'] for s in own])
        if ident != 'PASS':
            bad('null_actor_outcome', 'PASS', ident)
        return V
    exp = expected_spawn(plan)
    once = pk in ('run', 'run_ignore', 'act_command_line', 'act_file_interpreter', 'act_source_interpreter',
                  'exit_code_from')
    if once and len(target) != (2 if plan.get('second_use') else 1):
        bad('executed_once_and_only_once', 1, len(target))
    if not target:
        bad('process_is_started', exp, {'spawns': [s['raw_tag'] for s in hist['spawns']], 'verdict': ident,
                                        'stderr': res['stderr'][:300]})
        return V
    if plan.get('second_use'):
        m = plan['prog']['model']
        second = target[-1] if len(target) >= 2 else None
        target = target[:-1] if second is not None else target
        n_use = m['use_n_args']
        base_args = [v.replace('$CWD', '$SBX/act') for a in (m['args'][:len(m['args']) - n_use] if n_use else m['args'])
                     for v in a['val']]
        base_stdin = ''.join(p['val'] for p in (m['stdin'][:-1] if m['use_has_stdin'] else m['stdin']))
        want2 = {'shell': False, 'args': list(m['head']) + base_args + ['second-use'], 'stdin': base_stdin, 'cwd': '$SBX/act'}
        if second is None:
            bad('second_use_of_program_symbol.started', want2, None)
        else:
            got2 = {k: second[k] for k in ('shell', 'args', 'stdin', 'cwd')}
            if got2 != want2:
                bad('second_use_of_program_symbol', want2, got2)
    for s in target:
        got = {k: s[k] for k in ('shell', 'args', 'stdin', 'cwd')}
        want = dict(exp)
        if pk == 'act_source_interpreter':
            # last argument: a file whose contents are the act source
            if not got['args'] or got['args'][:-1] != want['args']:
                bad('argv.source_interpreter', want['args'] + ['<file with the source>'], got['args'])
            else:
                src = s['files'].get(got['args'][-1])
                if src is None or src.rstrip('\n') != '\n'.join(plan['act_source']).rstrip('\n'):
                    bad('source_file_holds_the_act_source', '\n'.join(plan['act_source']), src)
            got['args'] = want['args'] = None
        if got['shell'] != want['shell']:
            bad('shell_flag', want['shell'], got['shell'])
        elif got['args'] != want['args']:
            bad('shell_command_verbatim_as_one_string' if want['shell'] else 'argv', want['args'], got['args'])
        if got['stdin'] != want['stdin']:
            bad('stdin', want['stdin'], got['stdin'])
        if got['cwd'] != want['cwd']:
            bad('cwd', want['cwd'], got['cwd'])
    # programs that feed stdin: started at least once
    for p in plan['prog']['model']['stdin']:
        if p.get('tag') and not any(s['raw_tag'] == p['tag'] for s in hist['spawns']):
            bad('stdin_program_is_started', p['tag'], [s['raw_tag'] for s in hist['spawns']])
    # ---- capture / verdict
    code = T['exit']
    want = 'PASS'
    if pk == 'run':
        want = 'PASS' if code == 0 else ('FAIL' if plan['phase'] == 'assert' else 'HARD_ERROR')
    elif pk in ('run_ignore', 'file_stdout_from_ignore'):
        want = 'PASS'
    elif pk in ('file_stdout_from', 'file_stderr_from', 'stdout_from', 'stderr_from', 'transformer', 'stdout_equals_program'):
        want = 'PASS' if code == 0 else 'HARD_ERROR'
        if pk == 'stdout_equals_program' and code == 0:
            want = 'PASS' if T['stdout'] == '' else 'FAIL'  # the ATC (% atc) prints nothing
    elif pk in ('matcher', 'file_matcher'):
        want = 'PASS' if code == 0 else 'FAIL'
    if ident != want:
        bad('captured_outcome_is_what_assertions_see' if pk.startswith('act') or pk.endswith('_from') else 'verdict',
            {'place': pk, 'phase': plan['phase'], 'exit': code, 'verdict': want},
            {'verdict': ident, 'stderr': res['stderr'][:400]})
    return V


def _probes(plan, hist):
    plan = materialized(plan)
    pr = {}
    if plan['kind'] == 'policy':
        if plan['code'] not in (0, 'ENOENT') and not plan['ignore']:
            pr['nonzero_exit_fail_in_assert' if plan['phase'] == 'assert' and plan['form'] in ('run', '%', '$')
               else 'nonzero_exit_hard_error'] = 1
        if plan['ignore']:
            pr['ignore_exit_code'] = 1
        if plan['code'] == 'ENOENT':
            pr['spawn_failure'] = 1
        if plan.get('context'):
            pr['policy_' + plan['context']] = 1
    else:
        pk = plan['place']
        pr['place_' + {'run_ignore': 'run', 'file_stdout_from_ignore': 'file_stdout_from', 'file_stderr_from': 'file_stdout_from',
                       'stderr_from': 'stdout_from', 'file_matcher': 'matcher',
                       'stdout_equals_program': 'stdout_from'}.get(pk, pk)] = 1
        m = plan['prog']['model']
        if m:
            pr['driver_' + m['driver']] = 1
            if m['depth'] >= 1:
                pr['driver_sym'] = 1
            if m['depth'] >= 2:
                pr['chain_depth_2'] = 1
            if m['depth'] >= 3:
                pr['chain_depth_3'] = 1
            if len(m['stdin']) >= 2:
                pr['stdin_accumulated'] = 1
            if any(p.get('tag') for p in m['stdin']):
                pr['stdin_from_program'] = 1
            kinds = {a['kind'] for a in m['args']}
            if 'listref' in kinds:
                pr['list_symbol_spliced'] = 1
            if 'empty' in kinds:
                pr['empty_string_argument'] = 1
            if 'until_eol' in kinds:
                pr['text_until_eol'] = 1
        if plan['setup_stdin'] is not None:
            pr['setup_stdin_for_atc'] = 1
        if plan['setup_stdin'] == '@PROG':
            pr['setup_stdin_from_program'] = 1
        if plan.get('second_use'):
            pr['second_use_of_program_symbol'] = 1
        if plan.get('after_polluter'):
            pr['after_polluting_case_in_a_suite'] = 1
        if plan['cd']:
            pr['cd_before_use'] = 1
        if plan['procs']['T']['exit'] == 255 and pk == 'act_command_line':
            pr['capture_exit_code_255'] = 1
        if plan['transform']:
            pr['transformation_on_output'] = 1
    hist['probes'] = pr
    hist['armed'] = {}
    hist['fired'] = {}


def signature(plan, hist):
    plan = materialized(plan)
    if plan['kind'] == 'policy':
        return True, ('policy', plan['phase'], plan['form'], plan['code'], plan.get('context'))
    m = plan['prog']['model']
    spawned = any(s['tag'] == 'T' for s in hist['spawns']) or plan['place'] == 'act_null'
    if not m:
        return spawned, (plan['place'],)
    code = plan['procs']['T']['exit']
    return spawned, (plan['place'], plan['phase'], m['driver'], m['depth'], tuple(sorted(a['kind'] for a in m['args'])),
                     tuple(p['kind'] for p in m['stdin']), code if plan.get('capture') else min(code, 2), plan['cd'])


def sample_view(plan, hist):
    plan = materialized(plan)
    return {'case_text': hist['text'], 'verdict': hist['result']['stdout'], 'exit': hist['result']['exit'],
            'expected_spawn': expected_spawn(plan) if plan['kind'] == 'denotation' and plan['prog']['model'] else None,
            'spawns': [{k: s[k] for k in ('tag', 'args', 'shell', 'stdin', 'cwd', 'exit')} for s in hist['spawns']]}


def normalize(plan):
    """Syntax, symbol definitions and model are all derived from plan['tree']: shrinking edits of the tree are safe."""
    if plan.get('kind') == 'policy':
        # the behaviour of the program is what the expectation is computed from: it stays as planned
        T = plan.get('procs', {}).get('T')
        if T is None or 'text' not in plan:
            return None
        if plan['code'] == 'ENOENT':
            if not T.get('spawn_error'):
                return None
        elif T.get('exit') != plan['code'] or T.get('spawn_error'):
            return None
        for tag in ('T0', 'polluter-fail'):
            if plan.get('context') in ('after_ignoring_neighbour', 'after_strict_neighbour') and tag == 'T0' and \
                    tag not in plan['procs']:
                return None
            if plan.get('context') == 'after_ignoring_case' and tag == 'polluter-fail' and tag not in plan['procs']:
                return None
        return plan
    if plan.get('kind') != 'denotation':
        return plan
    plan.pop('prog', None)
    plan.pop('defs', None)
    t = plan.get('tree')
    if t is None:
        return plan if plan['place'] == 'act_null' else None
    # every node keeps its keys; a 'sym' node needs its sub-program
    def ok(n):
        if not isinstance(n, dict) or 'k' not in n or 'args' not in n:
            return False
        n.setdefault('stdin', None)
        n.setdefault('sub', None)
        if n['k'] == 'sym':
            return n['sub'] is not None and ok(n['sub'])
        return n['sub'] is None
    if not ok(t) or 'T' not in plan['procs']:
        return None
    for n in _nodes(t):
        st = n.get('stdin')
        if st and st.get('tag') and st['tag'] not in plan['procs']:
            return None
    m = materialize_tree(t, [])
    if plan.get('transform') and len(m['lines']) != 1:
        return None
    if plan.get('second_use') and not (m['model'].get('use_symbol') and not m['model']['shell']):
        plan['second_use'] = False
    return plan


def _nodes(t):
    while t:
        yield t
        t = t.get('sub')
