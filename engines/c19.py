"""C19 — Timeouts are enforced on every OS process; Exactly never waits indefinitely.

Workload (CLI level): for every spawn site x phase, a child behaviour from {fast, T-d, T+d, 10T, never finishes,
never finishes and ignores SIGTERM} and a timeout configuration from {default, set earlier in the same phase, set in
an earlier phase, set after the use (must not apply), none before the use, none then N, N then none after, N = 0}.
Other children in the same case are fast, so progress before and after the stalled one is visible.
Real timeouts make this untestable by running it; under SimClock a stalled child costs microseconds, "just before /
just after the limit" is exact, and "never waits indefinitely" is the detectable event SimHang.
"""
import os
import sys

from sim import kernel, world as world_mod, patches, host, casegen
from models import settings as S

PROPERTY = 'C19'
LEVEL = 'fault_enumeration'
EXHAUSTIVE_SWEEP = True
RULE_TEXT = ('runs = full product spawn site (all site x phase placements - the evidence key sweep_runs / 48 gives their number: run/%/$ and every program-as-text-source / '
             'transformer / matcher / stdin form in each phase it can be written in, the ATC under the command-line, '
             'file-interpreter and source-interpreter actors) x child behaviour (6) x timeout configuration (8); then '
             'seeded random cases with several sites, several slow children and random timeout histories. '
             'Non-trivial = a child that outlives or nearly outlives its limit (behaviour != fast) was spawned; '
             'distinct = (site, phase, behaviour, timeout configuration, N).')
REACH_PROBES = ['big_constant_stdin', 'timeout_in_a_case_expected_to_fail', 'mode_act', 'mode_act_timeout_in_cleanup', 'timeout_set_by_a_suite_instruction_from_a_case_symbol', 'killed_at_deadline', 'finished_just_below', 'hang_as_specified', 'ignores_sigterm_killed',
                'cleanup_after_timeout', 'timeout_in_assert_is_hard_error', 'timeout_zero', 'set_after_use_not_applied',
                'none_lifts_limit', 'atc_killed', 'text_source_killed', 'matcher_killed', 'transformer_killed',
                'stdin_program_killed', 'multi_slow']

DELTA = 0.25
PHASES = ['setup', 'before-assert', 'assert', 'cleanup']
MULTI = tuple(PHASES)

# site id -> (phases, lines with {S}, kind)
SITES = [
    ('run', MULTI, ['run % {S}'], 'instr'),
    ('sys', MULTI, ['% {S}'], 'instr'),
    ('shell', MULTI, ['$ {S}'], 'instr'),
    ('run_ignore_exit', MULTI, ['run -ignore-exit-code % {S}'], 'instr'),
    ('stdin_program', MULTI, ['run % fast{N}', '  -stdin -stdout-from % {S}'], 'stdin'),
    ('file_stdout_from', MULTI, ['file f{N}.txt = -stdout-from % {S}'], 'text_source'),
    # the program fills a file of a directory that the same instruction creates (a files-source)
    ('dir_with_file_from_program', MULTI, ['dir nd{N} = {', '  file a.txt = -stdout-from % {S}', '}'], 'text_source'),
    ('dir_with_nested_dir_file_from_program', MULTI, ['dir nd{N} = {', '  dir sub = {', '    file a.txt = -stdout-from % {S}', '  }', '}'],
     'text_source'),
    ('file_stderr_from_ignore', MULTI, ['file f{N}.txt = -stderr-from -ignore-exit-code % {S}'], 'text_source'),
    ('file_transformed_by_run', MULTI, ['file f{N}.txt = "abc" -transformed-by run % {S}'], 'transformer'),
    ('file_transformed_by_run_ignore_exit', MULTI, ['file f{N}.txt = "abc" -transformed-by run -ignore-exit-code % {S}'],
     'transformer'),
    ('stdout_transformed_by_run_ignore_exit', ('assert',),
     ['stdout -transformed-by run -ignore-exit-code % {S}', '  is-empty'], 'transformer'),
    ('file_stdout_from_ignore_exit', MULTI, ['file f{N}.txt = -stdout-from -ignore-exit-code % {S}'], 'text_source'),
    # command lines with characters that mean something to str.format / % formatting (the message about a timeout quotes
    # the command line)
    ('run_args_with_braces', MULTI, ["run % {S} '{}' '{0}' x{y 100%s"], 'instr'),
    ('shell_with_braces', MULTI, ['$ {S} ${HOME} { a; } %d'], 'instr'),
    # a stdin that is held in memory and larger than any pipe buffer (64 KiB): however it is fed to a child that does not
    # read it, Exactly must come back
    ('run_with_big_constant_stdin', MULTI, ['run % {S}', '  -stdin <<EOF', '{BIG}', 'EOF'], 'instr'),
    ('env_value', MULTI, ['env -of !act X{N} = -stdout-from % {S}'], 'text_source'),
    ('env_value_both_sets', ('setup',), ['env X{N} = -stdout-from % {S}'], 'text_source'),
    ('setup_stdin_value', ('setup',), ['stdin = -stdout-from % {S}'], 'lazy_stdin'),
    ('exit_code_from', ('assert',), ['exit-code -from % {S}', '  == 0'], 'instr'),
    ('stdout_from', ('assert',), ['stdout -from % {S}', '  is-empty'], 'instr'),
    # the program whose output is looked at carries a transformation that runs a program: that one stalls
    ('stdout_from_program_transformed_by_run', ('assert',), ['stdout -from % fast{N}', '  -transformed-by run % {S}', '  is-empty'],
     'after_fast'),
    ('stderr_from_program_transformed_by_run', ('assert',), ['stderr -from % fast{N}', '  -transformed-by run % {S}', '  is-empty'],
     'after_fast'),
    ('stderr_from', ('assert',), ['stderr -from % {S}', '  is-empty'], 'instr'),
    ('contents_matcher_run', ('assert',), ['contents -rel-act g.txt : run % {S}'], 'matcher'),
    ('contents_transformer_run', ('assert',), ['contents -rel-act g.txt : -transformed-by run % {S}', '  is-empty'],
     'transformer'),
    ('exists_file_matcher_run', ('assert',), ['exists -rel-act g.txt : run % {S}'], 'matcher'),
    ('dir_contents_every_file_run', ('assert',), ['dir-contents -rel-act gd : every file : run % {S}'], 'matcher'),
    ('stdout_equals_program', ('assert',), ['stdout equals -stdout-from % {S}'], 'text_source'),
    ('run_program_symbol', MULTI, ['run @ PS{N} arg'], 'instr'),
    ('file_contents_of_transformed_by_run', MULTI, ['file f{N}.txt = -contents-of -rel-act g.txt -transformed-by run % {S}'],
     'transformer'),
    ('exists_contents_matcher_run', ('assert',), ['exists -rel-act g.txt : contents run % {S}'], 'matcher'),
    ('atc_program_symbol', ('act',), ['@ PS{N} actarg'], 'atc'),
    ('atc_command_line', ('act',), ['% {S}'], 'atc'),
    ('atc_shell', ('act',), ['$ {S}'], 'atc'),
    ('atc_shell_with_braces', ('act',), ['$ {S} ${HOME} {}'], 'atc'),
    ('atc_file_interpreter', ('act',), ['src.py a1'], 'atc_file'),
    ('atc_source_interpreter', ('act',), ['source line one', 'source line two'], 'atc_source'),
]
BEHAVIOURS = ['fast', 'below', 'above', 'ten_times', 'never', 'never_ignores_sigterm']
CONFIGS = ['default', 'same_phase_before', 'earlier_phase', 'set_after', 'none_before', 'none_then_n',
           'n_then_none_after', 'zero']


def placements():
    out = []
    for sid, phases, lines, kind in SITES:
        for ph in phases:
            out.append((sid, ph))
    return out


_SW = {}


def sweep_specs():
    if 's' not in _SW:
        sp = []
        for sid, ph in placements():
            for beh in BEHAVIOURS:
                for cfg in CONFIGS:
                    sp.append((sid, ph, beh, cfg))
        _SW['s'] = sp
    return _SW['s']


def total_runs(tier):
    return len(sweep_specs()) + (600 if tier == 'quick' else 250000)


def make_plan(i, master, tier):
    seed = kernel.run_seed(master, PROPERTY, i)
    g = kernel.stream(seed, 'gen')
    sp = sweep_specs()
    if i < len(sp):
        sid, ph, beh, cfg = sp[i]
        return build(seed, tier, [(sid, ph, beh)], cfg, g.choice([1, 2, 5, 77]), g, sweep=True)
    # random: 1..3 sites, at most one of which outlives its limit (plus any number just below)
    n = g.choice([1, 1, 2, 3])
    pl = placements()
    sites = []
    used_act = False
    for _ in range(n):
        sid, ph = g.choice(pl)
        if ph == 'act':
            if used_act:
                continue
            used_act = True
        sites.append([sid, ph, g.choice(['fast', 'below', 'below'])])
    if g.random() < 0.7 and sites:
        g.choice(sites)[2] = g.choice(BEHAVIOURS[2:])
    return build(seed, tier, [tuple(s) for s in sites], g.choice(CONFIGS), g.choice([1, 2, 3, 5, 30, 77, 600]), g)


def build(seed, tier, sites, cfg, n_value, g, sweep=False):
    """sites: [(site id, phase, behaviour)].  The timeout configuration is applied around the FIRST site."""
    phases = {ph: [] for ph in PHASES}
    conf = []
    act = ['% atc']
    files = {}
    counter = [0]
    site_recs = []
    by_id = {s[0]: s for s in SITES}
    # probes before
    for ph in PHASES:
        phases[ph].append(('probe', 'pre-' + ph))
    for k, (sid, ph, beh) in enumerate(sites):
        counter[0] += 1
        n = counter[0]
        _, _, lines, kind = by_id[sid]
        tag = 'S%d' % n
        lines = [l.replace('{S}', tag).replace('{N}', str(n)) for l in lines]  # ({BIG} is expanded when rendering)
        rec = {'site': sid, 'phase': ph, 'tag': tag, 'behaviour': beh, 'kind': kind, 'n': n, 'first': k == 0}
        if kind == 'atc':
            act = lines
        elif kind == 'atc_file':
            conf.append('actor = file % ' + tag)
            files['home/src.py'] = 'print(1)\n'
            act = lines
        elif kind == 'atc_source':
            conf.append('actor = source % ' + tag)
            act = lines
        else:
            phases[ph].append(('site', rec, lines))
        if kind in ('atc', 'atc_file', 'atc_source'):
            rec['is_atc'] = True
        site_recs.append(rec)
    for ph in PHASES:
        phases[ph].append(('probe', 'post-' + ph))
    # timeout configuration around the first site
    first = site_recs[0] if site_recs else None
    timeout_lines = {'before': [], 'after': [], 'setup_start': []}
    N = 0 if cfg == 'zero' else n_value
    if first is not None:
        if cfg in ('same_phase_before', 'zero'):
            timeout_lines['before'] = ['timeout = %d' % N]
        elif cfg == 'earlier_phase':
            timeout_lines['setup_start'] = ['timeout = %d' % N]
        elif cfg == 'set_after':
            timeout_lines['after'] = ['timeout = %d' % N]
        elif cfg == 'none_before':
            timeout_lines['before'] = ['timeout = none']
        elif cfg == 'none_then_n':
            timeout_lines['setup_start'] = ['timeout = none']
            timeout_lines['before'] = ['timeout = %d' % N]
        elif cfg == 'n_then_none_after':
            timeout_lines['before'] = ['timeout = %d' % N]
            timeout_lines['after'] = ['timeout = none']
    plan = {'format': 1, 'property': PROPERTY, 'engine': 'c19', 'run_seed': seed, 'tier': tier,
            'knobs': {'mem_buff_size': g.choice([1, 8192])}, 'entry': 'cli', 'cfg': cfg, 'N': N,
            'conf': conf, 'act': act, 'files': files, 'sites': site_recs, 'sweep': sweep,
            'layout': _layout(phases, first, timeout_lines), 'procs': {}, 'keep': (not sweep) and g.random() < 0.25}
    plan['after_case_in_suite'] = kernel.stream(seed, 'suite').random() < (0.08 if sweep else 0.2)
    plan['act_flag'] = kernel.stream(seed, 'actmode').random() < (0.1 if sweep else 0.2)
    # the case may be marked as expected to fail: a timeout is an error all the same (and a run without one is XPASS)
    plan['status_fail'] = kernel.stream(seed, 'status').random() < 0.15
    # how the text is spread over files is no business of the timeout: a section may start by including a file
    plan['failing_assertion'] = kernel.stream(seed, 'failing-assertion').random() < 0.2
    plan['env_of_act'] = kernel.stream(seed, 'env-of-act').random() < 0.3
    fg = kernel.stream(seed, 'first-include')
    if fg.random() < 0.3:
        plan['first_include'] = [ph for ph in PHASES if fg.random() < 0.5]
    _behaviours(plan)
    return plan


def _layout(phases, first, tl):
    """Flatten to an ordered list of entries per phase: ['probe', id] | ['site', tag, lines] | ['timeout', value]."""
    out = {ph: [] for ph in PHASES}

    def tmo(line):
        v = line.split('=')[1].strip()
        return ['timeout', None if v == 'none' else int(v)]

    for ph in PHASES:
        for e in phases[ph]:
            if e[0] == 'probe':
                out[ph].append(['probe', e[1]])
            else:
                rec, lines = e[1], e[2]
                if first is not None and rec is first:
                    for l in tl['before']:
                        out[ph].append(tmo(l))
                out[ph].append(['site', rec['tag'], lines])
                if first is not None and rec is first:
                    for l in tl['after']:
                        out[ph].append(tmo(l))
    if first is not None:
        if first.get('is_atc'):
            # the ATC: "before" = end of [setup], "after" = start of [before-assert]
            for l in tl['before']:
                out['setup'].insert(len(out['setup']) - 1, tmo(l))
            for l in reversed(tl['after']):
                out['before-assert'].insert(1, tmo(l))
        for l in reversed(tl['setup_start']):
            out['setup'].insert(1, tmo(l))
    return out


def limit_at_end_of_act(plan):
    """The timeout in force when [before-assert] begins (no `timeout` can be written in [act])."""
    t = S.DEFAULT_TIMEOUT
    for e in plan['layout']['setup']:
        if e[0] == 'timeout':
            t = e[1]
    return t


BIG_TEXT = '\n'.join('line %05d of a text that does not fit into a pipe ............................' % k for k in range(1000))


def has_big_stdin(plan):
    return any(r['site'] == 'run_with_big_constant_stdin' for r in plan['sites'])


def in_act_mode(plan):
    """--act: [before-assert] and [assert] are not executed; the identifier of an error is the first line of stderr, and a
    run that completes exits with the exit code of the action (0 here) and prints what the action printed (nothing)"""
    return bool(plan.get('act_flag')) and not plan.get('keep') and not in_suite_mode(plan)


def in_suite_mode(plan):
    """The case runs as the second case of a suite whose file supplies `timeout = @[TSUITE]@` at the start of
    [before-assert]; the case defines TSUITE as the value that is in force there anyway, the case before it as 599."""
    return bool(plan.get('after_case_in_suite')) and not plan.get('keep') and limit_at_end_of_act(plan) is not None


def render(plan):
    lines = []
    if plan['conf'] or plan.get('status_fail'):
        lines.append('[conf]')
        lines.extend(plan['conf'])
        if plan.get('status_fail'):
            lines.append('status = FAIL')
    for ph in ('setup', 'act', 'before-assert', 'assert', 'cleanup'):
        lines.append('[%s]' % ph)
        if ph == 'act':
            lines.extend(plan['act'])
            continue
        if ph in (plan.get('first_include') or []):
            # the section starts by including a file (a definition nobody uses); everything else follows the directive
            lines.append('including ' + casegen.first_include_file(ph)[0])
        if ph == 'setup':
            if plan.get('env_of_act'):
                # the action and the other processes see different environments: none of the timeout's business
                lines.append('env -of act ONLY_FOR_THE_ACTION = a')
                lines.append('env -of !act ONLY_FOR_THE_OTHERS = o')
            lines.append('file g.txt = "g"')
            lines.append('dir gd')
            lines.append('file gd/x.txt = "x"')
            for r in plan['sites']:
                if r['site'] in ('run_program_symbol', 'atc_program_symbol'):
                    lines.append('def program PS%d = %% %s' % (r['n'], r['tag']))
        for e in plan['layout'][ph]:
            if e[0] == 'probe':
                lines.append('% ' + e[1])
            elif e[0] == 'timeout':
                lines.append('timeout = %s' % ('none' if e[1] is None else e[1]))
            else:
                lines.extend(BIG_TEXT if l == '{BIG}' else l for l in e[2])
        if ph == 'setup' and in_suite_mode(plan):
            lines.append('def string TSUITE = %d' % limit_at_end_of_act(plan))
        if ph == 'assert' and plan.get('failing_assertion'):
            # the last assertion fails (the action exits with 0): a FAIL - unless a process times out, before it or in
            # [cleanup] after it: a timeout is reported as HARD_ERROR whatever else happened
            lines.append('exit-code == 99')
    return '\n'.join(lines) + '\n'


def simulate(plan):
    """The model, in one pass over the layout in execution order: the timeout in force when each site's process is
    started (a lazily evaluated [setup] stdin program is started in [act]), the duration its behaviour means
    relative to that limit, which site (if any) is the first whose child outlives its limit, the expected sequence
    of spawned processes (after a stall only [cleanup] follows; a `timeout` in a skipped part never takes effect)."""
    recs = {r['tag']: r for r in plan['sites']}
    t = S.DEFAULT_TIMEOUT
    seq = []
    stalled = None
    hang = None
    lazy = []
    T = {}
    D = {}

    def duration(rec, limit):
        base = limit if limit is not None else 100.0
        d = {'fast': 0.01, 'below': max(base - DELTA, 0.01), 'above': base + DELTA, 'ten_times': 10 * base + 1,
             'never': 'inf', 'never_ignores_sigterm': 'inf'}[rec['behaviour']]
        if rec['behaviour'] == 'below' and limit == 0:
            d = 0.01
        return d

    def start(ph, tag):
        """returns True iff execution of the current part must stop"""
        nonlocal stalled, hang
        rec = recs[tag]
        T[tag] = t
        D[tag] = duration(rec, t)
        seq.append(tag)
        dur = float('inf') if D[tag] == 'inf' else float(D[tag])
        if t is None:
            if dur == float('inf'):
                hang = tag
                return True
        elif dur > t:
            if stalled is None:
                stalled = (ph, tag)
            return True
        return False

    def fast(ph, tag):
        """a fast companion child (0.01 s): outlives only a limit of 0"""
        nonlocal stalled
        seq.append(tag)
        if t is not None and 0.01 > t:
            if stalled is None:
                stalled = (ph, tag)
            return True
        return False

    def run_phase(ph):
        nonlocal t
        if ph == 'act':
            for tag in lazy:
                if start('act', tag):
                    return True
            atc = next((r for r in plan['sites'] if r.get('is_atc')), None)
            if atc:
                return start('act', atc['tag'])
            return fast('act', 'atc')
        for e in plan['layout'][ph]:
            if e[0] == 'timeout':
                t = e[1]
            elif e[0] == 'probe':
                if fast(ph, e[1]):
                    return True
            else:
                rec = recs[e[1]]
                if rec['kind'] == 'lazy_stdin':
                    del lazy[:]  # a later `stdin =` replaces the earlier one: only the last program is ever started
                    lazy.append(e[1])
                    continue
                if rec['kind'] == 'after_fast':
                    if fast(ph, 'fast%d' % rec['n']):
                        return True
                if start(ph, e[1]):
                    return True
                if rec['kind'] == 'stdin':
                    if fast(ph, 'fast%d' % rec['n']):
                        return True
        return False

    stop = False
    for ph in ('setup', 'act') + (() if in_act_mode(plan) else ('before-assert', 'assert')):
        if run_phase(ph):
            stop = True
            break
    if hang is None:
        run_phase('cleanup')
    # sites that never start keep the duration their behaviour would have under the default limit
    for r in plan['sites']:
        if r['tag'] not in T:
            T[r['tag']] = None
            D[r['tag']] = 0.01
    return {'spawns': seq, 'stalled': stalled[1] if stalled else None, 'stalled_phase': stalled[0] if stalled else None,
            'hang': hang, 'T': T, 'D': D}



def _behaviours(plan):
    x = simulate(plan)
    procs = {'atc': {'exit': 0}}
    for rec in plan['sites']:
        b = {'exit': 0, 'duration': x['D'][rec['tag']], 'stdout': '', 'early': 0}
        if rec['behaviour'] == 'never_ignores_sigterm':
            b['ignores_sigterm'] = True
        procs[rec['tag']] = b
        rec['T'] = x['T'][rec['tag']]
        rec['duration'] = x['D'][rec['tag']]
    plan['procs'] = procs


def expected(plan):
    return simulate(plan)


# ----------------------------------------------------------------------------- execute

REAL_SECONDS_LIMIT = 12


def execute(plan, scratch):
    """Plans with a big constant stdin run in a forked child under a real-time watchdog: the simulator owns every wait
    on a child process, but not a deadlock inside Exactly's own plumbing (a blocked pipe writer, a thread that is
    joined and never ends).  Such a run does not return in real time although every simulated wait is bounded."""
    if not has_big_stdin(plan):
        return _execute_here(plan, scratch)
    import pickle
    import select
    import signal as _signal
    r, w_ = os.pipe()
    sys.stdout.flush()
    pid = os.fork()
    if pid == 0:
        code = 0
        try:
            os.close(r)
            _signal.alarm(0)
            out = pickle.dumps(_execute_here(plan, scratch))
            with os.fdopen(w_, 'wb') as f:
                f.write(out)
        except BaseException:
            code = 1
        finally:
            os._exit(code)
    os.close(w_)
    data = b''
    hung = False
    import time as _time
    t_end = _time.time() + REAL_SECONDS_LIMIT
    with os.fdopen(r, 'rb') as f:
        while True:
            left = t_end - _time.time()
            if left <= 0:
                hung = True
                break
            ready, _, _ = select.select([f], [], [], left)
            if not ready:
                hung = True
                break
            chunk = os.read(f.fileno(), 1 << 20)
            if not chunk:
                break
            data += chunk
    if hung:
        os.kill(pid, _signal.SIGKILL)
    os.waitpid(pid, 0)
    if hung:
        world_mod.force_rmtree(os.path.join(scratch, 'w'))
        hist = {'text': render(plan), 'result': {'exit': None, 'stdout': '', 'stderr': '', 'hang': None, 'escape': None,
                                                  'exception': None, 'real_time_hang': True, 'cwd_ok': True,
                                                  'environ_ok': True},
                'spawns': [], 'leftover': [], 'n_sandboxes': 0, 'orphans': [], 'digest': 'real-time-hang', 'sim_seconds': 0.0,
                'probes': {'big_constant_stdin': 1}, 'armed': {}, 'fired': {}}
        return hist
    if not data:
        raise kernel.HarnessError('C19: the forked run died without a result')
    return pickle.loads(data)


def _execute_here(plan, scratch):
    _behaviours(plan)  # durations and limits are always derived from the layout by the current model
    w = world_mod.World(os.path.join(scratch, 'w'))
    text = render(plan)
    w.write('home/t.case', text)
    w.populate(plan.get('files', {}))
    for ph in plan.get('first_include') or []:
        name, body = casegen.first_include_file(ph)
        w.write('home/' + name, body)
    sim = kernel.Sim(plan, w)
    suite_mode = in_suite_mode(plan)
    if suite_mode:
        w.write('home/warm.case', '[setup]\ndef string TSUITE = 599\n[act]\n% warm-atc\n[before-assert]\n% warm-ba\n')
        w.write('home/s.suite', '[cases]\nwarm.case\nt.case\n[before-assert]\ntimeout = @[TSUITE]@\n')
    with patches.installed(sim):
        if suite_mode:
            res = host.run_cli(sim, ['suite', 's.suite'], tap=True)
            ident = ''
            for line in res['stdout'].split('\n'):
                if 't.case' in line and line.strip().split():
                    ident = line.strip().split()[-1]
            res['stdout'] = ident + '\n'
            res['exit'] = {'PASS': 0, 'XPASS': 33, 'XFAIL': 33, 'HARD_ERROR': 128, 'FAIL': 32, 'INTERNAL_ERROR': 129, 'VALIDATION_ERROR': 65,
                           'SYNTAX_ERROR': 65}.get(ident, res['exit'])
        else:
            res = host.run_cli(sim, (['--keep'] if plan.get('keep') else []) + (['--act'] if in_act_mode(plan) else []) +
                               ['t.case'])
        leftover = w.tmp_entries() if not plan.get('keep') else []
        digest = sim.digest()
    if in_act_mode(plan):
        first = (res['stderr'].split('\n') or [''])[0]
        res['stdout'] = 'PASS\n' if (res['exit'] == 0 and res['stdout'] == '' and not first) else first + '\n'
    if plan.get('keep'):
        res['stdout'] = (res['stderr'].split('\n') or [''])[0] + '\n'
    spawns = [{'tag': s['tag'], 'n': s['n'], 'waits': list(s['waits']), 'killed': s['killed'],
               'terminated': s['terminated'], 'reaped': s['reaped'], 'exit': s['exit'], 't_spawn': s['t_spawn'],
               't_kill': s.get('t_kill'), 't_term': s.get('t_term'), 't_end': s.get('t_end'), 'hang': s.get('hang', False),
               'seq': s['seq']}
              for s in sim.spawns if not s['tag'].startswith('warm-')]
    hist = {'text': text, 'result': res, 'spawns': spawns, 'leftover': leftover,
            'n_sandboxes': len(sim.sandboxes) - (1 if suite_mode else 0),
            'orphans': [c.tag for c in sim.children if c.returncode is None and not c.rec.get('hang')],
            'digest': digest, 'sim_seconds': sim.clock.advanced}
    x = expected(plan)
    pr = {}
    recs = {r['tag']: r for r in plan['sites']}
    for s in spawns:
        r = recs.get(s['tag'])
        if r is None:
            continue
        if s['killed']:
            pr['killed_at_deadline'] = 1
            if r['behaviour'] == 'never_ignores_sigterm':
                pr['ignores_sigterm_killed'] = 1
            if r['phase'] == 'assert':
                pr['timeout_in_assert_is_hard_error'] = 1
            if r.get('is_atc'):
                pr['atc_killed'] = 1
            pr[{'text_source': 'text_source_killed', 'matcher': 'matcher_killed', 'transformer': 'transformer_killed',
                'stdin': 'stdin_program_killed', 'lazy_stdin': 'stdin_program_killed'}.get(r['kind'], 'killed_at_deadline')] = 1
            if any(t['tag'].startswith('pre-cleanup') or t['tag'].startswith('post-cleanup') for t in spawns if t['seq'] > s['seq']):
                pr['cleanup_after_timeout'] = 1
            if plan['cfg'] == 'zero':
                pr['timeout_zero'] = 1
            if plan['cfg'] == 'set_after' and r.get('first'):
                pr['set_after_use_not_applied'] = 1
        elif r['behaviour'] == 'below' and s['reaped']:
            pr['finished_just_below'] = 1
        if r['T'] is None and r['behaviour'] in ('above', 'ten_times') and s['reaped'] and not s['killed']:
            pr['none_lifts_limit'] = 1
    if plan.get('status_fail') and x['stalled']:
        pr['timeout_in_a_case_expected_to_fail'] = 1
    if in_act_mode(plan):
        pr['mode_act'] = 1
        if x['stalled'] and x['stalled_phase'] == 'cleanup':
            pr['mode_act_timeout_in_cleanup'] = 1
    if has_big_stdin(plan):
        pr['big_constant_stdin'] = 1
    if suite_mode:
        pr['timeout_set_by_a_suite_instruction_from_a_case_symbol'] = 1
    if res.get('hang') and x['hang']:
        pr['hang_as_specified'] = 1
    if sum(1 for r in plan['sites'] if r['behaviour'] != 'fast') > 1:
        pr['multi_slow'] = 1
    hist['probes'] = pr
    hist['armed'] = {r['behaviour']: 1 for r in plan['sites']}
    hist['fired'] = {'timeout_kill': sum(1 for s in spawns if s['killed'])}
    w.destroy()
    return hist


def oracle(plan, hist):
    V = []

    def bad(rule, expected_, observed):
        V.append({'rule': 'C19.' + rule, 'expected': expected_, 'observed': observed})

    res = hist['result']
    x = expected(plan)
    recs = {r['tag']: r for r in plan['sites']}
    if res.get('escape') or res.get('exception'):
        bad('returns', 'returns', {k: res.get(k) for k in ('escape', 'exception')})
        return V
    if res.get('hang'):
        if x['hang'] != res['hang']:
            bad('never_waits_indefinitely', {'hang': x['hang']}, {'hang': res['hang'],
                                                                  'waits': [s['waits'] for s in hist['spawns'] if s['tag'] == res['hang']]})
        return V
    if x['hang']:
        bad('none_lifts_the_limit', 'after `timeout = none` a never-finishing child is waited for (model predicts a hang)',
            {'exit': res['exit'], 'spawns': [(s['tag'], s['waits'], s['killed']) for s in hist['spawns'] if s['tag'] == x['hang']]})
        return V
    # -- spawn sequence (consecutive repetitions of a text-source program collapse: it may be evaluated again)
    got = []
    for s in hist['spawns']:
        if got and got[-1] == s['tag'] and s['tag'] in recs:
            continue
        got.append(s['tag'])
    if got != x['spawns']:
        bad('progress.processes_before_and_cleanup_after', x['spawns'], got)
    # -- per child: deadline behaviour
    total_allowed = 0.0
    for s in hist['spawns']:
        r = recs.get(s['tag'])
        dur = 0.01
        T = None
        if r is not None:
            dur = float('inf') if r['duration'] == 'inf' else float(r['duration'])
            T = r['T']
            timed = [t for t in s['waits'] if t is not None]
            if len(s['waits']) == 1 and s['waits'][0] != T:
                bad('deadline.timeout_in_force_at_the_use', {'tag': s['tag'], 'site': r['site'], 'phase': r['phase'], 'timeout': T},
                    s['waits'][0])
            # "terminated": SIGKILL, or SIGTERM to a child that honours it
            ended = s['killed'] or (s['terminated'] and r['behaviour'] != 'never_ignores_sigterm')
            if T is not None and dur > T:
                if not ended:
                    bad('deadline.child_exceeding_the_limit_is_terminated', {'tag': s['tag'], 'site': r['site'], 'timeout': T,
                                                                            'duration': r['duration']},
                        {'killed': False, 'terminated': s['terminated'], 'waits': s['waits']})
                else:
                    t_end = min(t for t in (s['t_kill'], s['t_term']) if t is not None)
                    after = t_end - s['t_spawn']
                    if not (T - 1e-6 <= after <= T + 1.0):
                        bad('deadline.killed_at_the_limit_not_earlier', {'after': T}, {'after': after})
                    if not s['reaped']:
                        bad('deadline.killed_child_is_reaped', True, False)
            else:
                if s['killed'] or s['terminated']:
                    bad('deadline.child_within_the_limit_is_not_killed', {'tag': s['tag'], 'site': r['site'], 'timeout': T,
                                                                         'duration': r['duration']},
                        {'killed': s['killed'], 'waits': s['waits']})
            if ended and any(o['tag'] == s['tag'] and o['seq'] > s['seq'] for o in hist['spawns']):
                bad('no_retry_after_timeout', 'a timed-out process is not started again', s['tag'])
        total_allowed += (min(dur, T) if T is not None else dur) + (1.0 if (s['killed'] or s['terminated']) else 0.0)
    # -- bounded liveness
    if in_suite_mode(plan):
        total_allowed += 0.02  # the two fast children of the case that runs before this one
    if hist['sim_seconds'] > total_allowed + 1e-6:
        bad('liveness.returns_within_sum_of_limits', {'simulated_seconds_at_most': total_allowed}, hist['sim_seconds'])
    # -- outcome
    ident = res['stdout'].strip()
    if x['stalled']:
        if ident != 'HARD_ERROR' or res['exit'] != 128:
            bad('outcome.timeout_is_hard_error', {'identifier': 'HARD_ERROR', 'exit': 128, 'site': recs.get(x['stalled'], {}).get('site', x['stalled']),
                                                  'phase': x['stalled_phase']},
                {'identifier': ident, 'exit': res['exit']})
    else:
        want_ident = 'XPASS' if (plan.get('status_fail') and not in_act_mode(plan)) else 'PASS'
        if plan.get('failing_assertion') and not in_act_mode(plan) and atc_exits_zero(plan, hist):
            want_ident = 'XFAIL' if plan.get('status_fail') else 'FAIL'
        if ident != want_ident:
            bad('outcome.pass_when_every_child_finishes_in_time', want_ident,
                {'identifier': ident, 'stderr': res['stderr'][:300]})
    if hist['leftover']:
        bad('sandbox_removed_after_timeout', [], hist['leftover'])
    if hist['orphans']:
        bad('no_orphan_process', [], hist['orphans'])
    return V


def atc_exits_zero(plan, hist):
    a = [s for s in hist['spawns'] if s['tag'] == 'atc' or any(r['tag'] == s['tag'] and r['kind'].startswith('atc') for r in plan['sites'])]
    return all(s.get('exit') in (0, None) for s in a)


def signature(plan, hist):
    sites = tuple((r['site'], r['phase'], r['behaviour']) for r in plan['sites'])
    nontrivial = any(r['behaviour'] != 'fast' for r in plan['sites']) and bool(hist['spawns'])
    return nontrivial, (sites, plan['cfg'], plan['N'])


def sample_view(plan, hist):
    return {'case_text': hist['text'], 'exit': hist['result']['exit'], 'stdout': hist['result']['stdout'],
            'hang': hist['result'].get('hang'), 'expected': expected(plan),
            'spawns': [(s['tag'], s['waits'], s['killed'], s['t_kill'] and round(s['t_kill'] - s['t_spawn'], 3))
                       for s in hist['spawns']],
            'simulated_seconds': hist['sim_seconds']}


def normalize(plan):
    if not plan.get('sites') or 'layout' not in plan:
        return None
    if has_big_stdin(plan):
        return None  # (a run that hangs costs REAL_SECONDS_LIMIT of real time: such plans are reported as found)
    tags = {r['tag'] for r in plan['sites']}
    laid = {e[1] for ph in PHASES for e in plan['layout'].get(ph, []) if e[0] == 'site'}
    need = {r['tag'] for r in plan['sites'] if not r.get('is_atc')}
    if laid != need:
        return None
    for ph in PHASES:
        plan['layout'].setdefault(ph, [])
    n_actor = sum(1 for r in plan['sites'] if r['kind'] in ('atc_file', 'atc_source'))
    if len(plan['conf']) != n_actor or not plan['act']:
        return None
    if any(r['kind'] == 'atc_source' for r in plan['sites']) and len(plan['act']) < 1:
        return None
    for ph in PHASES:
        for e in plan['layout'][ph]:
            if e[0] == 'site' and len(e[2]) != len(next(s_[2] for s_ in SITES if s_[0] == next(r['site'] for r in plan['sites'] if r['tag'] == e[1]))):
                return None
    _behaviours(plan)
    return plan
