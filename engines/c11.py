"""C11 — Settings persist forward: cd, env (act / non-act), timeout.

Workload (CLI level): a random history (<= 14) of cd / env set / env unset (with -of act, -of !act or neither,
${name} references to set, unset and unknown variables, occasionally a value produced by a program) / timeout
operations distributed over setup, before-assert, assert and cleanup in every way, a probe child after every
operation, the ATC in the middle, stubs that record the settings they are handed, and optionally a step fault
between two operations (then only cleanup follows, and must still see the state at the point of failure).
Oracle: every probe's (cwd, full environ, timeout in force) == the state of models/settings.py at that point;
the ATC is compared with the act set, every other process with the non-act set; the timeout is judged both
from the wait argument and behaviourally (a child just below the limit finishes, one just above is killed).
"""
import os

from sim import kernel, world as world_mod, patches, host, casegen
from models import protocol as P, settings as S
from engines import c01

PROPERTY = 'C11'
LEVEL = 'exploration'
RULE_TEXT = ('runs = seeded random operation histories (1..14 ops from cd / env set / env unset / timeout, phase spec '
             'in {none, act, !act}, values with ${} references, program-produced values) split over the four phases at '
             'random cut points, a probe child after every op, ATC in the middle, optional step fault between ops, '
             'optional slow children just below / just above the timeout in force. Non-trivial = at least one '
             'state-changing op was executed and a later probe observed the state; distinct = (op-kind sequence with '
             'phase and spec, fault position class, slow-probe kind).')
REACH_PROBES = ['long_child_after_timeout_none', 'op_set', 'op_unset', 'op_timeout', 'op_cd', 'spec_act', 'spec_nonact', 'spec_none',
                'act_spec_outside_setup', 'ref_unknown', 'ref_known', 'value_from_program', 'timeout_none',
                'fault_between_ops', 'cleanup_after_fault_sees_state', 'slow_below', 'slow_above_killed',
                'ops_in_cleanup', 'ops_in_assert', 'atc_observed', 'stub_view_observed', 'cd_relative',
                'atc_by_command_line_actor', 'process_with_empty_environment', 'atc_by_file_actor', 'atc_by_source_actor',
                'cd_fails', 'cleanup_after_failing_cd_observes_cwd', 'op_copy_into_current_directory']

NAMES = ['V1', 'V2', 'V3', 'SIMBASE_A']
PHASES = ['setup', 'before-assert', 'assert', 'cleanup']
PFX = casegen.PREFIX
DELTA = 0.25


def _cd_options(cwd, phase):
    opts = [('-rel-act d1', 'act/d1'), ('-rel-act d1/d2', 'act/d1/d2'), ('-rel-tmp t1', 'tmp/t1'),
            ('-rel-act .', 'act'), ('-rel-tmp .', 'tmp')]
    if phase != 'cleanup':
        if cwd.count('/') >= 1:
            opts.append(('..', './..'))
        if cwd == 'act':
            opts.append(('d1', './d1'))
        if cwd == 'act/d1':
            opts.append(('d2', './d2'))
        if cwd == 'tmp':
            opts.append(('-rel-cd t1', './t1'))
    return opts


def gen_ops(g, procs):
    n = g.randint(1, 14)
    cuts = sorted(g.randint(0, n) for _ in range(3))
    phase_of = []
    for i in range(n):
        phase_of.append(PHASES[sum(1 for c in cuts if c <= i)])
    model = S.Settings(world_mod.FIXED_ENVIRON)
    ops = []
    nv = 0
    # in one history out of eight a set (or both) is emptied completely at some point: an empty set is a set that has
    # been changed, not one that is yet to be initialised from the environment Exactly was started with
    purge_at = g.randrange(n) if g.random() < 0.125 else None
    purge_spec = g.choice([None, 'act', '!act'])
    for i in range(n):
        ph = phase_of[i]
        if i == purge_at:
            for name in sorted(set(model.act) | set(model.non)):
                fx = ['unset', purge_spec, name]
                model.apply(fx, ph)
                ops.append((ph, fx))
        k = g.choice(['set', 'set', 'set', 'unset', 'timeout', 'cd', 'copy'])
        if k == 'set':
            spec = g.choice([None, 'act', '!act'])
            name = g.choice(NAMES)
            if g.random() < 0.12 and (spec == '!act' or (spec is None and ph != 'setup')):
                nv += 1
                tag = 'v%d' % nv
                val = 'val%d' % nv
                procs[tag] = {'exit': 0, 'stdout': val}
                fx = ['set', spec, name, val, tag]
            else:
                # (values may contain backslashes: a referenced value is substituted as it is, character by character)
                val = ''.join(g.choice(['x', 'y', '-', '${V1}', '${V2}', '${SIMBASE_A}', '${NOPE}', '${V3}', ' ', ':',
                                        '\\t', 'c:\\new', '\\d', '\\1', '\\g<0>'])
                              for _ in range(g.randint(0, 4)))
                fx = ['set', spec, name, val, None]
        elif k == 'unset':
            fx = ['unset', g.choice([None, 'act', '!act']), g.choice(NAMES)]
        elif k == 'timeout':
            fx = ['timeout', g.choice([None, 1, 2, 5, 77, 600])]
        elif k == 'copy':
            fx = ['copy', 'cp-%d.txt' % i]  # (`copy SOURCE`: a file of the home directory, into the current directory)
        else:
            syn, target = g.choice(_cd_options(model.cwd, ph))
            fx = ['cd', target, syn]
        model.apply(fx, ph)
        ops.append((ph, fx))
    return ops


def total_runs(tier):
    return 2500 if tier == 'quick' else 200000


def make_plan(i, master, tier):
    seed = kernel.run_seed(master, PROPERTY, i)
    g = kernel.stream(seed, 'gen')
    fr = kernel.stream(seed, 'faults')
    procs = {'atc': {'exit': 0, 'stdout': 'o\n'}}
    ops = gen_ops(g, procs)
    case = {'conf': [], 'setup': [{'k': 'real', 'text': 'def path HERE = marker.txt'},
                                  {'k': 'real', 'text': 'def path NOWHERE = -rel-tmp t1/no-such-dir'},
                                  {'k': 'real', 'text': 'dir -rel-act d1/d2'}, {'k': 'real', 'text': 'dir -rel-tmp t1'},
                                  {'k': 'real', 'text': 'file -rel-tmp t1/a-file.txt = "a file"'},
                                  {'k': 'real', 'text': 'file -rel-act d1/d2/a-file.txt = "a file"'}],
            'before-assert': [], 'assert': [], 'cleanup': [], 'act': {'lines': ['% atc']}}
    n = [0]

    def probe(ph):
        n[0] += 1
        ident = 'p%d' % n[0]
        procs[ident] = {'exit': 0, 'observe': ['cwd_ls']}
        # every probe is handed a path symbol whose relativity is the current directory (the default): the path it
        # denotes is the one under the directory that is current at THAT use
        return {'k': 'probe', 'id': ident, 'form': g.choice(['%', '%', 'run', '$']), 'args': '@[HERE]@'}

    def stub(ph):
        n[0] += 1
        return {'k': 'fault', 'id': '%sz%d' % (PFX[ph], n[0])}

    for ph in PHASES:
        case[ph].append(probe(ph))
        for (oph, fx) in ops:
            if oph != ph:
                continue
            case[ph].append({'k': 'real', 'text': S.render(fx), 'fx': [fx[:4] if fx[0] == 'set' else fx]})
            case[ph].append(probe(ph) if g.random() < 0.8 else stub(ph))
        if g.random() < 0.5:
            case[ph].append(stub(ph))
    faults = []
    mode = fr.random()
    slow = None
    if mode < 0.2:
        # a step fault between two operations
        stubs = [it for ph in PHASES for it in case[ph] if it['k'] == 'fault']
        probes = [it for ph in PHASES[:3] for it in case[ph] if it['k'] == 'probe']
        if stubs and fr.random() < 0.6:
            it = fr.choice(stubs)
            ph = P.index_case(case)[it['id']][0]
            kind = fr.choice(c01.KINDS['main_as' if ph == 'assert' else 'main_sh'])
            f = {'id': it['id'], 'step': 'main', 'kind': kind}
            if kind == 'raise_exc':
                f['exc'] = fr.choice(c01.EXCS)
            faults.append(f)
        elif probes:
            it = fr.choice(probes)
            procs[it['id']] = dict(procs[it['id']], exit=fr.choice([1, 3]))
    elif mode < 0.45:
        slow = fr.choice(['below', 'below', 'above'])
    elif mode < 0.57:
        # a `cd` that fails (the directory does not exist / is a file / lies under a file): HARD_ERROR there - and the
        # current directory stays what it was: [cleanup] (the only phase that still runs) observes it
        ph = fr.choice(PHASES[:3])
        at = fr.randint(7 if ph == 'setup' else 1, len(case[ph]))  # (in [setup]: after the lines that make the directories)
        syn = fr.choice(['-rel-act no-such-dir', '-rel-tmp no-such-dir', '-rel-act d1/no-such-dir', '-rel-tmp t1/a-file.txt',
                         '-rel-act d1/d2/a-file.txt/sub', 'no-such-dir', '-rel-cd no-such-dir',
                         '@[NOWHERE]@'])
        case[ph].insert(at, {'k': 'real', 'id': 'xcd', 'text': 'cd ' + syn, 'mfail': 'hard_error'})
    plan = {'format': 1, 'property': PROPERTY, 'engine': 'c11', 'run_seed': seed, 'tier': tier,
            'knobs': {'mem_buff_size': g.choice([1, 64, 8192])}, 'entry': 'cli', 'status': 'PASS', 'act_mode': False,
            'case': case, 'procs': procs, 'faults': faults, 'slow': slow, 'sweep': False, 'keep': g.random() < 0.25}
    if slow:
        _place_slow(plan, fr)
    # which actor runs the action to check is no business of the settings: all three kinds of actor that start a
    # process must hand it the act set, the current directory and the timeout
    actor = kernel.stream(seed, 'actor').choice([None, None, 'file', 'source', 'transformed'])
    if actor == 'transformed':
        # the default actor, the program of [act] having an output transformation (another way of running it)
        case['act'] = {'lines': ['% atc', '  -transformed-by char-case -to-upper']}
        actor = None
        plan['atc_with_transformation'] = True
    if actor == 'file':
        case['conf'].append({'k': 'real', 'text': 'actor = file % atc'})
        case['act'] = {'lines': ['src.py a1']}
    elif actor == 'source':
        case['conf'].append({'k': 'real', 'text': 'actor = source % atc'})
        case['act'] = {'lines': ['source line one', 'source line two']}
    plan['actor'] = actor
    lay = kernel.stream(seed, 'layout')
    if lay.random() < 0.4:
        case['layout'] = casegen.random_layout(lay)
    return plan


def _place_slow(plan, fr):
    """Turn some probes (never in cleanup) into slow children relative to the *model's* timeout at that point."""
    case, procs = plan['case'], plan['procs']
    model = S.Settings(world_mod.FIXED_ENVIRON)
    cands = []
    for ph in PHASES[:3]:
        for it in case[ph]:
            for fx in it.get('fx', []):
                model.apply(fx, ph)
            if it['k'] == 'probe':
                cands.append((it['id'], model.timeout))
        if ph == 'setup':
            cands.append(('atc', model.timeout))
    if not cands:
        plan['slow'] = None
        return
    if plan['slow'] == 'below':
        for ident, t in fr.sample(cands, min(len(cands), fr.choice([1, 2, 3]))):
            # after `timeout = none` any finite duration must be waited for
            procs[ident] = dict(procs[ident], duration=max(t - DELTA, 0.01) if t is not None else 5000.0)
    else:
        cands = [c for c in cands if c[1] is not None]
        if not cands:
            plan['slow'] = None
            return
        ident, t = fr.choice(cands)
        procs[ident] = dict(procs[ident], duration=t + DELTA, expect_kill=True, early=0)


# ----------------------------------------------------------------------------- execute

def execute(plan, scratch):
    w = world_mod.World(os.path.join(scratch, 'w'))
    text = casegen.write_case(w, plan['case'], plan['status'])
    w.write('home/src.py', 'print(1)\n')
    for i in range(16):
        w.write('home/cp-%d.txt' % i, 'to be copied\n')
    sim = kernel.Sim(plan, w)
    with patches.installed(sim):
        res = host.run_cli(sim, (['--keep'] if plan.get('keep') else []) + ['t.case'])
        leftover = w.tmp_entries()
        digest = sim.digest()
    if plan.get('keep'):
        # --keep: the identifier is the first line of stderr; settings must not depend on the output mode
        res['stdout'] = (res['stderr'].split('\n') or [''])[0] + '\n'
    hist = summarize(plan, sim, w, res, text, leftover, digest)
    w.destroy()
    return hist


def summarize(plan, sim, w, res, text, leftover, digest):
    sbx = sim.sandboxes[0] if sim.sandboxes else None

    def rel(p):
        if sbx and (p == sbx or p.startswith(sbx + os.sep)):
            return os.path.relpath(p, sbx)
        return p

    events = []
    for t in sim.trace:
        if t['step'] in ('main', 'execute'):
            view = t['extra'] if isinstance(t['extra'], dict) else None
            events.append({'seq': t['seq'], 'kind': t['step'], 'id': t['id'], 'cwd': rel(t['cwd']), 'view': view})
    def second_word(a):
        words = a.split() if isinstance(a, str) else list(a)
        return rel(words[1]) if len(words) > 1 else None

    for s in sim.spawns:
        events.append({'seq': s['seq'], 'kind': 'spawn', 'id': s['tag'], 'cwd': rel(s['cwd']), 'env': dict(s['env']),
                       'arg': second_word(s['args']),
                       'ls': [n for n in (s['obs'].get('cwd_ls') or []) if isinstance(n, str) and n.startswith('cp-')]
                       if isinstance(s['obs'].get('cwd_ls'), list) else None,
                       'waits': list(s['waits']), 'killed': s['killed'], 'exit': s['exit'],
                       'error': s.get('spawn_error'), 't_spawn': s['t_spawn'], 't_kill': s.get('t_kill'),
                       't_end': s.get('t_end'), 'reaped': s['reaped'], 'n': s['n']})
    events.sort(key=lambda e: e['seq'])
    hist = {
        'text': text, 'result': res, 'events': events,
        'trace': [{'id': t['id'], 'step': t['step'], 'seq': t['seq'],
                   'prev': (t['extra'] or {}).get('previous_phase') if isinstance(t['extra'], dict) else None,
                   'sbx': t['n_sandboxes']} for t in sim.trace],
        'spawns': [{'tag': s['tag'], 'seq': s['seq'], 'error': s.get('spawn_error'), 'exit': s['exit'],
                    'killed': s['killed']} for s in sim.spawns],
        'fired': sim.fired, 'n_sandboxes': len(sim.sandboxes), 'leftover': leftover,
        'digest': digest, 'sim_seconds': sim.clock.advanced,
        'orphans': [c.tag for c in sim.children if c.returncode is None],
    }
    c01._annotate(plan, hist)
    return hist


def expected_views(plan, hist):
    """id -> expected settings view at the moment the item's main step runs (before its own effect)."""
    case, status = plan['case'], plan['status']
    fired = hist['fired_all']
    primary = next((f for f in fired if not c01._is_cleanup_main(plan, f)), None)
    ploc = P.locate(case, primary) if primary else None
    failing_cleanup = {g['id'] for g in c01._armed(plan) if c01._is_cleanup_main(plan, g)}
    items = P.executed_items(case, status, plan.get('act_mode', False), ploc, failing_cleanup)
    st = S.Settings(world_mod.FIXED_ENVIRON)
    expect = {}
    executed_ops = []
    for ph, idx, item in items:
        if ph == 'conf':
            continue
        if ph == 'act':
            expect['atc'] = st.view('act')
            expect['act'] = st.view('non')
            continue
        if 'id' in item:
            expect[item['id']] = st.view('non')
        for fx in item.get('fx', []):
            # value programs see the state before the instruction takes effect
            st_before = st.copy()
            st.apply(fx, ph)
            executed_ops.append((ph, fx, st_before))
    return expect, executed_ops, st, primary, ploc


def oracle(plan, hist):
    V = []

    def bad(rule, expected, observed):
        V.append({'rule': 'C11.' + rule, 'expected': expected, 'observed': observed})

    res = hist['result']
    if res.get('hang') or res.get('escape') or res.get('exception'):
        bad('returns', 'returns', {k: res.get(k) for k in ('hang', 'escape', 'exception')})
        return V
    expect, executed_ops, st, primary, ploc = expected_views(plan, hist)
    value_tags = {fx[4]: (ph, fx) for ph in PHASES for it in plan['case'][ph] for fx in [None] if False}
    # map value-program tags to the op they belong to
    value_tags = {}
    for ph in PHASES:
        for it in plan['case'][ph]:
            t = it.get('text', '')
            if '-stdout-from % v' in t:
                value_tags[t.split('% ')[-1].strip()] = (ph, it['fx'][0])
    seen = set()
    for e in hist['events']:
        ident = e['id']
        if e['kind'] == 'spawn':
            if ident in value_tags:
                # a program that produces a value for the non-act set: it is "another process" -> non-act set
                ph, fx = value_tags[ident]
                pre = next((b for (p, f, b) in executed_ops if f is fx or f == fx), None)
                if pre is not None:
                    if e['env'] != pre.non:
                        bad('environ.value_program_sees_non_act_set', _d(pre.non), _d(e['env']))
                    if e['cwd'] != pre.cwd:
                        bad('cwd.value_program', pre.cwd, e['cwd'])
                    _timeout_rule(bad, e, pre.timeout, plan)
                continue
            x = expect.get(ident)
            if x is None:
                bad('no_unexpected_process', 'only processes of executed instructions', ident)
                continue
            seen.add(ident)
            if e['cwd'] != x['cwd']:
                bad('cwd.persists_forward_and_not_backward', {'id': ident, 'cwd': x['cwd']}, e['cwd'])
            if ident.startswith('p') and e.get('arg') is not None and e['arg'] != x['cwd'] + '/marker.txt':
                bad('cwd.path_relative_to_the_current_directory_follows_cd', {'id': ident, 'path': x['cwd'] + '/marker.txt'},
                    e['arg'])
            if ident.startswith('p') and e.get('ls') is not None and e['ls'] != x.get('here', []):
                bad('cwd.copy_without_destination_puts_the_file_in_the_current_directory',
                    {'id': ident, 'cwd': x['cwd'], 'files': x.get('here', [])}, e['ls'])
            if e['env'] != x['env']:
                rule = 'environ.atc_sees_act_set' if ident == 'atc' else 'environ.other_processes_see_non_act_set'
                bad(rule, {'id': ident, 'env': _d(x['env'])}, _d(e['env']))
            _timeout_rule(bad, e, x['timeout'], plan)
        else:
            key = ident
            x = expect.get(key)
            view = e.get('view')
            if x is None or view is None:
                continue
            if e['cwd'] != x['cwd']:
                bad('cwd.persists_forward_and_not_backward', {'id': ident, 'cwd': x['cwd']}, e['cwd'])
            env = view.get('environ')
            eff = dict(world_mod.FIXED_ENVIRON) if env is None else env
            if eff != x['env']:
                bad('environ.instruction_environment_is_non_act_set', {'id': ident, 'env': _d(x['env'])}, _d(eff))
            if view.get('timeout') != x['timeout']:
                bad('timeout.instruction_environment', {'id': ident, 'timeout': x['timeout']}, view.get('timeout'))
    # every probe of an executed instruction was observed (nothing skipped)
    missing = [k for k in expect if k not in seen and k != 'act' and (k.startswith('p') or k == 'atc')]
    if missing:
        bad('probes_of_executed_instructions_ran', [], missing)
    if not res['cwd_ok'] or not res['environ_ok']:
        bad('harness_process_untouched', 'cwd and os.environ of the Exactly process unchanged',
            {'cwd_ok': res['cwd_ok'], 'environ': res.get('environ_delta')})
    # outcome: PASS unless a fault / kill / failing probe
    fired = hist['fired_all']
    want = 'PASS' if not fired else None
    ident_out = res['stdout'].strip()
    if want and ident_out != want:
        bad('outcome_pass_when_nothing_fails', want, {'identifier': ident_out, 'stderr': res['stderr'][:300]})
    if fired:
        cls = {P.class_of(f, P.locate(plan['case'], f)[1]) for f in fired[:1]}
        if ident_out not in cls and not (len(fired) > 1):
            bad('outcome_class_of_failure', sorted(cls), ident_out)
    if hist['orphans']:
        bad('no_orphans', [], hist['orphans'])
    return V


def _timeout_rule(bad, e, t_model, plan):
    b = plan['procs'].get(e['id'], {})
    dur = float('inf') if b.get('duration') == 'inf' else float(b.get('duration', 0.01))
    waits = e['waits']
    timed = [x for x in waits if x is not None]
    if len(waits) == 1:
        if waits[0] != t_model:
            bad('timeout.in_force', {'id': e['id'], 'timeout': t_model}, waits[0])
    # behavioural
    if t_model is None or dur < t_model:
        if e['killed']:
            bad('timeout.not_shorter_than_set', {'id': e['id'], 'timeout': t_model, 'duration': dur, 'killed': False},
                {'killed': True, 'waits': waits})
    elif dur > t_model:
        if not e['killed']:
            bad('timeout.not_longer_than_set', {'id': e['id'], 'timeout': t_model, 'duration': dur, 'killed': True},
                {'killed': False, 'waits': waits})
        elif e['t_kill'] is not None and not (t_model - 1e-6 <= e['t_kill'] - e['t_spawn'] <= t_model + 1.0):
            bad('timeout.killed_at_the_limit', {'after': t_model}, {'after': e['t_kill'] - e['t_spawn']})


def _d(env):
    base = world_mod.FIXED_ENVIRON
    return {k: env.get(k) for k in sorted(set(base) | set(env)) if base.get(k) != env.get(k)}


def _probes(plan, hist):
    pr = hist['probes']
    expect, executed_ops, st, primary, ploc = expected_views(plan, hist)
    for ph, fx, _ in executed_ops:
        pr['op_' + fx[0]] = 1
        if fx[0] in ('set', 'unset'):
            pr['spec_' + {None: 'none', 'act': 'act', '!act': 'nonact'}[fx[1]]] = 1
            if fx[1] == 'act' and ph != 'setup':
                pr['act_spec_outside_setup'] = 1
        if fx[0] == 'set':
            if '${NOPE}' in fx[3]:
                pr['ref_unknown'] = 1
            if '${V' in fx[3] or '${SIMBASE' in fx[3]:
                pr['ref_known'] = 1
        if fx[0] == 'timeout' and fx[1] is None:
            pr['timeout_none'] = 1
        if fx[0] == 'cd' and fx[1].startswith('./'):
            pr['cd_relative'] = 1
        if fx[0] == 'copy':
            pr['op_copy_into_current_directory'] = 1
        if ph == 'cleanup':
            pr['ops_in_cleanup'] = 1
        if ph == 'assert':
            pr['ops_in_assert'] = 1
    tags = [e['id'] for e in hist['events'] if e['kind'] == 'spawn']
    if any(t.startswith('v') for t in tags):
        pr['value_from_program'] = 1
    if primary is not None and primary['kind'] == 'real_hard_error':
        pr['cd_fails'] = 1
        pos = P.index_case(plan['case'])
        if any(e['kind'] == 'spawn' and pos.get(e['id'], ('',))[0] == 'cleanup' for e in hist['events']):
            pr['cleanup_after_failing_cd_observes_cwd'] = 1
    if primary is not None:
        pr['fault_between_ops'] = 1
        if executed_ops and any(e['id'].startswith('p') and e['seq'] > primary['seq'] for e in hist['events']):
            pr['cleanup_after_fault_sees_state'] = 1
    if 'atc' in tags:
        pr['atc_observed'] = 1
    if any(e['kind'] == 'spawn' and not e.get('env') for e in hist['events']):
        pr['process_with_empty_environment'] = 1
        pr['atc_by_%s_actor' % (plan.get('actor') or 'command_line')] = 1
    if any(e.get('view') for e in hist['events']):
        pr['stub_view_observed'] = 1
    if plan.get('slow') == 'below':
        pr['slow_below'] = 1
    if any(e['kind'] == 'spawn' and e.get('waits') == [None] and
           float(plan['procs'].get(e['id'], {}).get('duration', 0.01)) > 1000 for e in hist['events']):
        pr['long_child_after_timeout_none'] = 1
    if any(e.get('killed') for e in hist['events']):
        pr['slow_above_killed'] = 1
    hist['n_ops_executed'] = len(executed_ops)


def signature(plan, hist):
    if 'n_ops_executed' not in hist:
        _probes(plan, hist)
    ops = []
    for ph in PHASES:
        for it in plan['case'][ph]:
            for fx in it.get('fx', []):
                ops.append((ph, fx[0], fx[1] if fx[0] in ('set', 'unset') else None))
    f = hist['fired_all'][0] if hist['fired_all'] else None
    return hist['n_ops_executed'] > 0, (tuple(ops), (f['kind'], P.locate(plan['case'], f)[1]) if f else None,
                                        plan.get('slow'), plan.get('actor'))


_orig_execute = execute


def execute(plan, scratch):  # noqa: F811  (adds the reach probes)
    hist = _orig_execute(plan, scratch)
    _probes(plan, hist)
    return hist


def sample_view(plan, hist):
    return {'case_text': hist['text'], 'exit': hist['result']['exit'], 'stdout': hist['result']['stdout'],
            'events': [{'id': e['id'], 'kind': e['kind'], 'cwd': e['cwd'], 'env_diff': _d(e['env']) if 'env' in e else None,
                        'waits': e.get('waits'), 'killed': e.get('killed')} for e in hist['events']]}


def normalize(plan):
    pos = P.index_case(plan['case'])
    plan['faults'] = [f for f in plan['faults'] if f['id'] in pos or f['id'] == 'act']
    for ph in ('conf',) + tuple(PHASES):
        plan['case'].setdefault(ph, [])
    if 'act' not in plan['case'] or 'atc' not in plan['procs']:
        return None
    # value programs must keep their behaviour; the two directory-creating lines must stay
    texts = [it.get('text') for it in plan['case']['setup']]
    if 'dir -rel-act d1/d2' not in texts or 'dir -rel-tmp t1' not in texts or 'def path HERE = marker.txt' not in texts:
        return None
    if any('a-file.txt' in (t or '') or 'NOWHERE' in (t or '') for ph in PHASES for t in [it.get('text') for it in plan['case'][ph] if it.get('mfail')]) \
            and not all(x in texts for x in ('def path NOWHERE = -rel-tmp t1/no-such-dir', 'file -rel-tmp t1/a-file.txt = "a file"',
                                            'file -rel-act d1/d2/a-file.txt = "a file"')):
        return None
    model = S.Settings(world_mod.FIXED_ENVIRON)
    for ph in PHASES:
        for it in plan['case'][ph]:
            for fx in it.get('fx', []):
                model.apply(fx, ph)
                if model.cwd not in ('act', 'act/d1', 'act/d1/d2', 'tmp', 'tmp/t1'):
                    return None
            t = it.get('text', '')
            if '-stdout-from % v' in t and t.split('% ')[-1].strip() not in plan['procs']:
                return None
            if it['k'] == 'probe' and it['id'] not in plan['procs']:
                plan['procs'][it['id']] = {'exit': 0}
    return plan
