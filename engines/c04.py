"""C04 — Sandbox lifecycle and isolation of the Exactly process.

Workload: C01's step-fault generator at CLI level, with and without --keep, plus real instructions and child
actions that disturb exactly the state in question (cd, env, files in act/ and tmp/, chmod read-only).
Oracle: a small state model (cwd, act/ and tmp/ listings, result/ population, env sets) evaluated along the
items that the protocol model says were executed; observations are taken *in situ* by stubs and simulated
children at the moment they run, and after the run (removal / --keep, cwd and environ of the process).
"""
import os

from sim import kernel, world as world_mod, patches, host, casegen
from models import protocol as P
from engines import c01, diskmode

PROPERTY = 'C04'
LEVEL = 'fault_enumeration'
EXHAUSTIVE_SWEEP = True
RULE_TEXT = ('runs = deterministic sweep over every (phase step x position x fault kind) single fault at shape '
             '(2,2,2,2,2) x keep in {no, yes} under PASS (and step classes under FAIL/SKIP), each with state-'
             'disturbing real instructions (cd, env, files in act/ tmp/, children that chmod/write) around the stubs; '
             'then seeded random plans (random shapes, several armed faults, failing children, ATC spawn errors). '
             'Non-trivial = a sandbox was created (execution got past validation) or a validation fault fired; '
             'distinct = (keep, status, shape, fired primary (phase, step, position, kind), fired cleanup fault, '
             'set of disturbance kinds executed).')
REACH_PROBES = ['mode_act', 'action_with_output_transformation', 'case_elsewhere_than_start_directory', 'read_through_preprocessor', 'keep', 'no_keep', 'sandbox_created', 'no_sandbox', 'ended_by_fault_with_sandbox', 'ended_pass',
                'cd_executed', 'env_executed', 'tmp_file_by_case', 'child_wrote_file', 'chmod_readonly',
                'child_left_symlink', 'child_left_odd_entries', 'child_removed_cwd', 'cwd_deleted_when_execution_ends', 'result_observed_after_act', 'result_observed_before_act', 'double_fault', 'keep_after_failure',
                'cwd_in_tmp_at_end', 'empty_case'] + diskmode.PROBES

PFX = casegen.PREFIX


def _disturbers(g, phase, n, dirs):
    """A random disturbing item for `phase`; n = unique counter."""
    menu = ['file_tmp', 'file_act', 'file_cwd', 'dir_cd', 'cd_tmp', 'cd_act', 'env', 'child_write', 'child_chmod',
            'child_symlink', 'child_odd', 'child_rmdir_cwd']
    if phase == 'setup':
        menu += ['unenv', 'env', 'dir_cd']
    k = g.choice(menu)
    if k == 'file_tmp':
        return [{'k': 'real', 'text': 'file -rel-tmp t%d.txt = "t"' % n, 'fx': [['mk', 'tmp', 't%d.txt' % n]]}]
    if k == 'file_act':
        return [{'k': 'real', 'text': 'file -rel-act f%d.txt = "f"' % n, 'fx': [['mk', 'act', 'f%d.txt' % n]]}]
    if k == 'file_cwd':
        return [{'k': 'real', 'text': 'file c%d.txt = "c"' % n, 'fx': [['mk', '$CWD', 'c%d.txt' % n]]}]
    if k == 'dir_cd':
        return [{'k': 'real', 'text': 'dir -rel-act d%d' % n, 'fx': [['mk', 'act', 'd%d' % n]]},
                {'k': 'real', 'text': 'cd -rel-act d%d' % n, 'fx': [['cd', 'act/d%d' % n]]}]
    if k == 'cd_tmp':
        return [{'k': 'real', 'text': 'cd -rel-tmp .', 'fx': [['cd', 'tmp']]}]
    if k == 'cd_act':
        return [{'k': 'real', 'text': 'cd -rel-act .', 'fx': [['cd', 'act']]}]
    if k == 'env':
        return [{'k': 'real', 'text': 'env V%d = v%d' % (n, n), 'fx': [['env', 'V%d' % n, 'v%d' % n]]}]
    if k == 'unenv':
        return [{'k': 'real', 'text': 'env unset SIMBASE_A', 'fx': [['unenv', 'SIMBASE_A']]}]
    if k == 'child_write':
        ident = '%sw%d' % (PFX[phase], n)
        return [{'k': 'probe', 'id': ident, 'form': g.choice(['%', 'run', '$']),
                 'fx': [['mk', '$CWD', 'k%d.txt' % n]],
                 'beh': {'actions': [{'op': 'write_file', 'path': '$CWD/k%d.txt' % n, 'text': 'k'}]}}]
    if k == 'child_rmdir_cwd':
        # the test stands in a directory that a child then removes (legal); the next instruction goes back to act/
        ident = '%sr%d' % (PFX[phase], n)
        return [{'k': 'real', 'text': 'dir -rel-act rd%d' % n, 'fx': [['mk', 'act', 'rd%d' % n]]},
                {'k': 'real', 'text': 'cd -rel-act rd%d' % n, 'fx': [['cd', 'act/rd%d' % n]]},
                {'k': 'probe', 'id': ident, 'form': '%', 'noarm': True, 'fx': [['rmcwd', 'rd%d' % n]],
                 'beh': {'actions': [{'op': 'rmdir', 'path': '$SBX/act/rd%d' % n}]}},
                {'k': 'real', 'text': 'cd -rel-act .', 'fx': [['cd', 'act']]}]
    if k == 'child_odd':
        # other things a child can leave behind: a FIFO, names with spaces / leading dash / non-ASCII, a deep tree
        ident = '%so%d' % (PFX[phase], n)
        where = g.choice(['act', 'tmp'])
        kind = g.choice(['fifo', 'name', 'deep'])
        if kind == 'fifo':
            name = 'fifo%d' % n
            acts = [{'op': 'mkfifo', 'path': '$SBX/%s/%s' % (where, name)}]
        elif kind == 'name':
            name = g.choice(['-rf %d', 'sp ace %d', 'n\u00e9me-%d', '.hidden%d']) % n
            acts = [{'op': 'write_file', 'path': '$SBX/%s/%s' % (where, name), 'text': 'x'}]
        else:
            name = 'deep%d' % n
            acts = [{'op': 'write_file', 'path': '$SBX/%s/%s/a/b/c/d/e/f.txt' % (where, name), 'text': 'x'},
                    {'op': 'chmod', 'path': '$SBX/%s/%s/a/b' % (where, name), 'mode': 0o500}]
        return [{'k': 'probe', 'id': ident, 'form': '%', 'fx': [['mk', where, name], ['odd']], 'beh': {'actions': acts}}]
    if k == 'child_symlink':
        ident = '%sy%d' % (PFX[phase], n)
        where = g.choice(['act', 'tmp'])
        target = g.choice(['no-such-target', 'ln%d' % n, '.', '/no/such/dir/x', '../result'])  # dangling, loop, dir, ...
        return [{'k': 'probe', 'id': ident, 'form': '%', 'fx': [['mk', where, 'ln%d' % n], ['symlink']],
                 'beh': {'actions': [{'op': 'symlink', 'path': '$SBX/%s/ln%d' % (where, n), 'target': target}]}}]
    if k == 'child_chmod':
        ident = '%sm%d' % (PFX[phase], n)
        return [{'k': 'probe', 'id': ident, 'form': '%', 'fx': [['mk', 'act', 'ro%d.txt' % n], ['chmod']],
                 'beh': {'actions': [{'op': 'write_file', 'path': '$SBX/act/ro%d.txt' % n, 'text': 'r'},
                                     {'op': 'chmod', 'path': '$SBX/act/ro%d.txt' % n, 'mode': 0o444},
                                     {'op': 'chmod', 'path': '$SBX/act', 'mode': 0o555},
                                     {'op': 'chmod', 'path': '$SBX/result', 'mode': 0o555}]}}]
    raise KeyError(k)


def disturb(case, procs, g, density=0.6):
    n = 0
    dirs = []
    for ph in ('setup', 'before-assert', 'assert', 'cleanup'):
        items = case[ph]
        out = []
        for it in items + [None]:
            while g.random() < density / 2:
                n += 1
                new = _disturbers(g, ph, n, dirs)
                for x in new:
                    if x['k'] == 'probe':
                        procs[x['id']] = dict(x.pop('beh'), exit=0)
                out.extend(new)
            if it is not None:
                out.append(it)
        case[ph] = out
    if g.random() < 0.15:
        # the very last thing the case does: stand in a directory and have a child remove it - the process's current
        # directory no longer exists when execution ends
        n += 1
        ident = 'lr%d' % n
        procs[ident] = {'exit': 0, 'actions': [{'op': 'rmdir', 'path': '$SBX/act/rd%d' % n}]}
        case['cleanup'].extend([
            {'k': 'real', 'text': 'dir -rel-act rd%d' % n, 'fx': [['mk', 'act', 'rd%d' % n]]},
            {'k': 'real', 'text': 'cd -rel-act rd%d' % n, 'fx': [['cd', 'act/rd%d' % n]]},
            {'k': 'probe', 'id': ident, 'form': '%', 'noarm': True, 'fx': [['rmcwd', 'rd%d' % n], ['rmcwd_final']]}])


_SWEEP = {}


def sweep_specs():
    if 'specs' in _SWEEP:
        return _SWEEP['specs']
    specs = []
    shape = (2, 2, 2, 2, 2)
    sites = c01.step_sites(shape)
    for keep in (False, True):
        for ident, step, kc in sites:
            for kind in c01.KINDS[kc]:
                specs.append((shape, 'PASS', keep, [(ident, step, kind)]))
        specs.append((shape, 'PASS', keep, []))
        specs.append((shape, 'FAIL', keep, []))
        specs.append((shape, 'SKIP', keep, []))
        # a case with nothing in it (and one with nothing but [conf]): executed in a sandbox like any other
        specs.append(((0, 0, 0, 0, 0), 'PASS', keep, []))
        specs.append(((1, 0, 0, 0, 0), 'FAIL', keep, []))
        for ident, step, kc in [s for s in sites if s[0] == 'act' or s[0].endswith('1')]:
            for kind in c01.KINDS[kc]:
                specs.append((shape, 'FAIL', keep, [(ident, step, kind)]))
                if not (ident.startswith('l') and step == 'main'):
                    specs.append((shape, 'PASS', keep, [(ident, step, kind), ('l0', 'main', 'raise_exc')]))
    _SWEEP['specs'] = specs
    return specs


def total_runs(tier):
    return len(sweep_specs()) + diskmode.n_sweep() + (1000 if tier == 'quick' else 300000)


DISK_SHARE = 0.25  # of the random part: disk-fault plans (engines/diskmode.py)


def random_plan(seed, tier, g, fr, armed=True, extra=None, density=0.6):
    """A random plan of this workload; armed=False: no step fault, no failing child (the disk-fault workload of
    engines/diskmode.py starts from such a plan); extra(case, procs, g) may add items."""
    shape = tuple(g.choice([0, 1, 2, 3]) for _ in range(5))
    status = g.choices(['PASS', 'FAIL', 'SKIP'], [70, 22, 8])[0] if armed else g.choices(['PASS', 'FAIL'], [80, 20])[0]
    keep = g.random() < 0.5
    case = {}
    procs = {'atc': {'exit': g.choice([0, 0, 1, 7, 255]), 'stdout': g.choice(['', 'atc-out\n', 'no newline']),
                     'stderr': g.choice(['', 'e\n'])}}
    for ph, cnt in zip(casegen.INSTR_PHASES, shape):
        items = []
        for j in range(cnt):
            ident = '%s%d' % (PFX[ph], j)
            if ph == 'conf' or g.random() < 0.7:
                items.append({'k': 'fault', 'id': ident})
            else:
                items.append({'k': 'probe', 'id': ident, 'form': g.choice(['%', 'run', '$'])})
                procs[ident] = {'exit': 0}
        case[ph] = items
    act_kind = g.choices(['sys', 'shell', 'empty', 'transformed', 'source', 'file'], [50, 12, 10, 12, 10, 6])[0]
    if act_kind == 'source':
        # the source-interpreter actor: Exactly stores the source in a file of its own (not in act/, tmp/ or result/)
        case['conf'].append({'k': 'real', 'text': 'actor = source % atc'})
    elif act_kind == 'file':
        case['conf'].append({'k': 'real', 'text': 'actor = file % atc'})
    case['act'] = {'lines': {'sys': ['% atc'], 'shell': ['$ atc arg'], 'empty': [], 'source': ['source line one', 'line two'],
                             'file': ['interpreted.src an-argument'],
                             # the program of [act] has a transformation: result/stdout holds the transformed
                             # output, result/stderr and result/exit-code what the action wrote / exited with
                             'transformed': ['% atc', '  -transformed-by char-case -to-upper']}[act_kind]}
    if act_kind == 'transformed' and not procs['atc'].get('stderr'):
        procs['atc'] = dict(procs['atc'], stderr='written on stderr by the action\n')
    disturb(case, procs, g, density)
    if kernel.stream(seed, 'own-files').random() < 0.4:
        # an assertion on the transformed output of a program: Exactly keeps such intermediate files among its own
        # (internal/), wherever the test stands at that moment
        procs['tpo'] = {'exit': 0, 'stdout': 'from the program\n', 'stderr': 'on stderr\n'}
        case['assert'].insert(0, {'k': 'real', 'text': 'stdout -from % tpo\n  -transformed-by char-case -to-upper\n  ! is-empty'})
        case['assert'].insert(1, {'k': 'real', 'text': 'stderr -from % tpo\n  -transformed-by ( char-case -to-upper | filter contents matches ON )\n  num-lines == 1'})
    if extra is not None:
        extra(case, procs, g)
    faults = arm_faults(case, procs, fr, act_kind != 'empty') if armed else []
    plan = c01._base_plan(seed, tier, case, status, False, faults, 'cli', procs,
                          knob=g.choice([1, 3, 64, 8192]))
    plan['keep'] = keep
    return plan


def arm_faults(case, procs, fr, has_atc):
    return c01.arm_random_faults(case, procs, fr, has_atc, p_none=0.25)


def make_plan(i, master, tier):
    seed = kernel.run_seed(master, PROPERTY, i)
    g = kernel.stream(seed, 'gen')
    specs = sweep_specs()
    if len(specs) <= i < len(specs) + diskmode.n_sweep():
        return diskmode.make_plan(PROPERTY, i - len(specs), seed, tier, sweep=True)
    if i >= len(specs) and kernel.stream(seed, 'workload').random() < DISK_SHARE:
        return diskmode.make_plan(PROPERTY, None, seed, tier, sweep=False)
    if i < len(specs):
        shape, status, keep, faults = specs[i]
        case = c01.stub_case(shape)
        procs = {'atc': {'exit': g.choice([0, 3]), 'stdout': 'atc-out-%s\n' % seed[:4], 'stderr': 'atc-err\n'}}
        fl = []
        for ident, step, kind in faults:
            f = {'id': ident, 'step': step, 'kind': kind}
            if kind == 'raise_exc':
                f['exc'] = g.choice(c01.EXCS)
            fl.append(f)
        if sum(shape[1:]) == 0:
            case['act'] = {'lines': []}  # (the empty case: no instruction anywhere, no action)
        else:
            disturb(case, procs, g)
        plan = c01._base_plan(seed, tier, case, status, False, fl, 'cli', procs, sweep=True,
                              knob=g.choice([1, 8192]))
    else:
        fr = kernel.stream(seed, 'faults')
        plan = random_plan(seed, tier, g, fr)
        keep = plan['keep']
    plan['property'] = PROPERTY
    plan['engine'] = 'c04'
    plan['keep'] = keep
    plan['observe_sbx'] = True
    # how Exactly is launched is no business of the sandbox: the case may stand elsewhere than the directory Exactly is
    # started in, and may be read through a preprocessor (which is run in the directory of the case)
    lg = kernel.stream(seed, 'launch')
    plan['launch'] = {'elsewhere': lg.random() < 0.4, 'pp': lg.random() < 0.35}
    if i >= len(specs) and lg.random() < 0.4:
        plan['case']['layout'] = casegen.random_layout(lg)
    # --act (without --keep): the sandbox is removed all the same
    if not keep and lg.random() < (0.1 if i < len(specs) else 0.2):
        plan['act_mode'] = True
    return plan


# ----------------------------------------------------------------------------- execute

def execute(plan, scratch):
    if plan.get('mode') == 'disk':
        return diskmode.execute(plan, scratch)
    return execute_plain(plan, scratch)


def execute_plain(plan, scratch):
    w = world_mod.World(os.path.join(scratch, 'w'))
    files = casegen.render_files(plan['case'], plan['status'])
    text = files['t.case']
    launch = plan.get('launch') or {}
    case_rel = 'cases/one/t.case' if launch.get('elsewhere') else 't.case'
    for name, ftext in files.items():
        w.write('home/' + os.path.join(os.path.dirname(case_rel), name), ftext)
    w.write('home/' + os.path.join(os.path.dirname(case_rel), 'interpreted.src'), 'source for the file actor\n')
    start = w.home
    if launch.get('elsewhere'):
        start = os.path.join(w.home, 'start')
        os.makedirs(start)
        case_rel = '../' + case_rel
    if launch.get('pp'):
        plan = dict(plan, procs=dict(plan['procs'], pp={'exit': 0, 'stdout': text}))
    sim = kernel.Sim(plan, w)
    home_before = w.snapshot(('home',))
    with patches.installed(sim):
        argv = (['--keep'] if plan['keep'] else []) + (['--act'] if plan.get('act_mode') else []) + \
            (['--preprocessor', 'pp'] if launch.get('pp') else []) + [case_rel]
        res = host.run_cli(sim, argv, cwd=start)
        leftover = w.tmp_entries()
        final = None
        if sim.sandboxes and os.path.isdir(sim.sandboxes[0]):
            from sim import observers
            final = observers.observe('sbx', sim, None)
            final['act_files'] = _walk(os.path.join(sim.sandboxes[0], 'act'))
        home_after = w.snapshot(('home',))
        digest = sim.digest()
    sbx = sim.sandboxes[0] if sim.sandboxes else None

    def rel(p):
        if sbx and (p == sbx or p.startswith(sbx + os.sep)):
            return os.path.relpath(p, sbx)
        return p

    events = []
    for t in sim.trace:
        if t['step'] in ('main', 'prepare', 'execute'):
            events.append({'seq': t['seq'], 'kind': t['step'], 'id': t['id'], 'cwd': rel(t['cwd']),
                           'obs': t.get('sbx_obs'), 'view': t['extra'] if isinstance(t['extra'], dict) else None})
    own = [s for s in sim.spawns if s['tag'] != 'pp']
    for s in own:
        events.append({'seq': s['seq'], 'kind': 'spawn', 'id': s['tag'], 'cwd': rel(s['cwd']),
                       'obs': s['obs'].get('sbx'), 'env': w.env_diff(s['env']), 'exit': s['exit'],
                       'error': s.get('spawn_error')})
    events.sort(key=lambda e: e['seq'])
    hist = {
        'text': text, 'result': res, 'events': events,
        'trace': [{'id': t['id'], 'step': t['step'], 'seq': t['seq'], 'prev': None, 'sbx': t['n_sandboxes']}
                  for t in sim.trace],
        'spawns': [{'tag': s['tag'], 'seq': s['seq'], 'error': s.get('spawn_error'), 'exit': s['exit'],
                    'killed': s['killed'], 'timed_out': bool(s.get('timed_out'))} for s in own],
        'fired': sim.fired, 'n_sandboxes': len(sim.sandboxes), 'leftover': leftover, 'final': final,
        'sbx_name': os.path.basename(sbx) if sbx else None, 'sbx_path': sbx,
        'home_unchanged': home_before == home_after,
        'digest': digest, 'sim_seconds': sim.clock.advanced,
    }
    if sim.diskfault is not None:
        d = sim.diskfault
        hist['disk'] = {'fired': d['fired'], 'seq': d['seq'], 'op': d['op'], 'path': d['path'], 'n': d['nth'],
                        'in_sandbox': bool(d.get('in_sandbox')), 'cwd_gone': bool(d.get('cwd_gone')),
                        'ops': [list(o) for o in d['ops']]}
    c01._annotate(plan, hist)
    _probes(plan, hist)
    w.destroy()
    return hist


def _walk(top):
    out = []
    for dp, dn, fn in os.walk(top):
        dn.sort()
        for f in sorted(fn):
            out.append(os.path.relpath(os.path.join(dp, f), top))
    return out


def _model(plan, hist):
    """Replays the executed items against the state model.  Returns (expected per-event observations keyed by
    event id, final state, flags)."""
    case, status = plan['case'], plan['status']
    fired = hist['fired_all']
    primary = next((f for f in fired if not c01._is_cleanup_main(plan, f)), None)
    ploc = P.locate(case, primary) if primary else None
    failing_cleanup = {g['id'] for g in c01._armed(plan) if c01._is_cleanup_main(plan, g)}
    items = P.executed_items(case, status, bool(plan.get('act_mode')), ploc, failing_cleanup)
    st = {'cwd': 'act', 'act': set(), 'tmp': set(), 'result': False, 'nonact_env': {}, 'act_env': {}, 'kinds': set(),
          'sub': {}}
    expect = {}
    atc = plan['procs'].get('atc', {})
    has_atc = bool(case.get('act', {}).get('lines'))

    def snap():
        return {'cwd': st['cwd'], 'act': sorted(st['act']), 'tmp': sorted(st['tmp']), 'result': st['result'],
                'nonact_env': dict(st['nonact_env']), 'act_env': dict(st['act_env'])}

    for ph, idx, item in items:
        if ph == 'conf':
            continue
        if ph == 'act':
            expect['act'] = snap()
            stub_fault = primary is not None and ploc[0] == 7 and primary['id'] == 'act'
            spawn_err = (bool(atc.get('spawn_error')) or bool(atc.get('expect_kill'))) and has_atc  # (or killed at the timeout)
            # result/ is populated by the act execute step when the ATC has run
            # (after a *failed* act execute the statement does not say what result/ holds: not judged)
            st['result'] = True if (not stub_fault and not spawn_err) else None
            if plan.get('act_mode'):
                st['result'] = None  # --act: the action's output goes to Exactly's own stdout / stderr; result/ is not judged
            continue
        if 'id' in item:
            expect[item['id']] = snap()
        for fx in item.get('fx', []):
            if fx[0] == 'mk':
                where = st['cwd'] if fx[1] == '$CWD' else fx[1]
                top = where.split('/')[0]
                if where in ('act', 'tmp'):
                    st[top].add(fx[2])
                else:
                    st['sub'].setdefault(where, set()).add(fx[2])
                st['kinds'].add('mk_' + top + ('_child' if item['k'] == 'probe' else ''))
            elif fx[0] == 'cd':
                st['cwd'] = fx[1]
                st['kinds'].add('cd')
            elif fx[0] == 'env':
                st['nonact_env'][fx[1]] = fx[2]
                if ph == 'setup':
                    st['act_env'][fx[1]] = fx[2]
                st['kinds'].add('env')
            elif fx[0] == 'unenv':
                st['nonact_env'][fx[1]] = None
                if ph == 'setup':
                    st['act_env'][fx[1]] = None
                st['kinds'].add('env')
            elif fx[0] == 'chmod':
                st['kinds'].add('chmod')
            elif fx[0] == 'symlink':
                st['kinds'].add('symlink')
            elif fx[0] == 'odd':
                st['kinds'].add('odd')
            elif fx[0] == 'rmcwd_final':
                st['kinds'].add('rmcwd_final')
            elif fx[0] == 'rmcwd':
                st['act'].discard(fx[1])
                st['cwd'] = '<deleted>'
                st['kinds'].add('rmcwd')
    return expect, st, {'primary': primary, 'ploc': ploc, 'has_atc': has_atc}


def _probes(plan, hist):
    pr = hist['probes']
    pr['keep' if plan['keep'] else 'no_keep'] = 1
    if plan.get('act_mode'):
        pr['mode_act'] = 1
    if len((plan['case'].get('act') or {}).get('lines', [])) > 1 and hist['n_sandboxes']:
        pr['action_with_output_transformation'] = 1
    if (plan.get('launch') or {}).get('elsewhere'):
        pr['case_elsewhere_than_start_directory'] = 1
    if (plan.get('launch') or {}).get('pp'):
        pr['read_through_preprocessor'] = 1
    pr['sandbox_created' if hist['n_sandboxes'] else 'no_sandbox'] = 1
    if not any(plan['case'].get(ph) for ph in ('setup', 'before-assert', 'assert', 'cleanup')) and not (plan['case'].get('act') or {}).get('lines'):
        pr['empty_case'] = 1
    expect, st, info = _model(plan, hist)
    hist['kinds'] = sorted(st['kinds'])
    if hist['n_sandboxes'] and hist['fired_all']:
        pr['ended_by_fault_with_sandbox'] = 1
        if plan['keep']:
            pr['keep_after_failure'] = 1
    if not hist['fired_all'] and plan['status'] != 'SKIP':
        pr['ended_pass'] = 1
    for k, name in (('cd', 'cd_executed'), ('env', 'env_executed'), ('mk_tmp', 'tmp_file_by_case'),
                    ('mk_act_child', 'child_wrote_file'), ('mk_tmp_child', 'child_wrote_file'),
                    ('chmod', 'chmod_readonly'), ('symlink', 'child_left_symlink'),
                    ('odd', 'child_left_odd_entries'), ('rmcwd', 'child_removed_cwd'),
                    ('rmcwd_final', 'cwd_deleted_when_execution_ends')):
        if k in st['kinds']:
            pr[name] = 1
    for e in hist['events']:
        if e.get('obs'):
            if e['obs'].get('result'):
                pr['result_observed_after_act'] = 1
            else:
                pr['result_observed_before_act'] = 1
    if st['cwd'] == 'tmp' and hist['n_sandboxes']:
        pr['cwd_in_tmp_at_end'] = 1


# ----------------------------------------------------------------------------- oracle

def judge_in_situ(plan, hist, bad, upto=None):
    """The observations taken while the case runs (by stubs and simulated children, at the moment they run) against the
    state model; upto = only events before that event number (the disk-fault workload judges up to the fault)."""
    case, status = plan['case'], plan['status']
    expect, st, info = _model(plan, hist)
    primary, ploc = info['primary'], info['ploc']
    past_validation = (status != 'SKIP') and (ploc is None or ploc[0] >= 4)
    # fresh: exactly one sandbox per execution that passes validation, none otherwise
    if hist['n_sandboxes'] != (1 if past_validation else 0):
        bad('fresh.one_sandbox_iff_past_validation', 1 if past_validation else 0, hist['n_sandboxes'])
    atc = plan['procs'].get('atc', {})
    exp_result_files = {'exit-code': str(atc.get('exit', 0)), 'stdout': atc.get('stdout', ''),
                        'stderr': atc.get('stderr', '')} if info['has_atc'] else \
        {'exit-code': '0', 'stdout': '', 'stderr': ''}
    if any('-transformed-by char-case -to-upper' in l for l in (plan['case'].get('act') or {}).get('lines', [])):
        exp_result_files['stdout'] = exp_result_files['stdout'].upper()
    first = True
    for e in hist['events']:
        if upto is not None and e['seq'] >= upto:
            break
        key = 'act' if e['id'] in ('act', 'atc') else e['id']
        x = expect.get(key)
        if x is None or e['id'].startswith('c'):
            continue
        if e['kind'] == 'prepare':
            continue
        obs = e.get('obs')
        if e['id'] == 'atc' and e['kind'] == 'spawn':
            # the ATC itself: cwd and env (act set)
            if e['cwd'] != x['cwd']:
                bad('cwd.atc', x['cwd'], e['cwd'])
            if _envd(e['env']) != {k: v for k, v in x['act_env'].items()}:
                bad('environ.atc_sees_act_set', x['act_env'], e['env'])
            continue
        if e['cwd'] != x['cwd']:
            bad('cwd.first_is_act_then_follows_cd' if first else 'cwd.follows_cd', {'id': e['id'], 'cwd': x['cwd']},
                e['cwd'])
        if e['kind'] == 'spawn' and _envd(e['env']) != x['nonact_env']:
            bad('environ.child_sees_case_changes_only', {'id': e['id'], 'env': x['nonact_env']}, e['env'])
        if obs is not None:
            if obs['root'] != ['act', 'internal', 'result', 'tmp']:
                bad('layout.four_directories', ['act', 'internal', 'result', 'tmp'], obs['root'])
            if obs['tmp'] != x['tmp']:
                bad('tmp.untouched_by_exactly', {'id': e['id'], 'tmp': x['tmp']}, obs['tmp'])
            if obs['act'] != x['act']:
                bad('act.only_case_files', {'id': e['id'], 'act': x['act']}, obs['act'])
            if x['result']:
                if obs['result'] != ['exit-code', 'stderr', 'stdout']:
                    bad('result.exactly_three_files_after_act', ['exit-code', 'stderr', 'stdout'], obs['result'])
                elif obs['result_files'] != exp_result_files:
                    bad('result.holds_action_output', exp_result_files, obs['result_files'])
            elif x['result'] is False:
                if obs['result'] != [] and not (e['kind'] == 'execute'):
                    bad('result.empty_before_act', [], obs['result'])
        first = False
    return st, info, exp_result_files


def oracle(plan, hist):
    if plan.get('mode') == 'disk':
        return diskmode.oracle_c04(plan, hist)
    return oracle_plain(plan, hist)


def oracle_plain(plan, hist):
    V = []

    def bad(rule, expected, observed):
        V.append({'rule': 'C04.' + rule, 'expected': expected, 'observed': observed})

    res = hist['result']
    if res.get('hang') or res.get('escape') or res.get('exception'):
        bad('returns', 'execute returns', {k: res.get(k) for k in ('hang', 'escape', 'exception')})
        return V
    st, info, exp_result_files = judge_in_situ(plan, hist, bad)
    # end of execution
    if not res['cwd_ok']:
        bad('isolation.cwd_restored', res['cwd_before'], res['cwd_after'])
    if not res['environ_ok']:
        bad('isolation.environ_restored', {}, res.get('environ_delta'))
    if not hist['home_unchanged']:
        bad('isolation.home_untouched', 'home/ as before', 'changed')
    if plan['keep']:
        out = res['stdout']
        if hist['n_sandboxes']:
            if out != hist['sbx_path'] + '\n':
                bad('keep.path_reported', hist['sbx_path'] + '\n', out)
            f = hist['final']
            if f is None:
                bad('keep.sandbox_left_intact', 'directory exists', 'missing')
            else:
                if f['root'] != ['act', 'internal', 'result', 'tmp']:
                    bad('keep.layout', ['act', 'internal', 'result', 'tmp'], f['root'])
                if f['tmp'] != sorted(st['tmp']):
                    bad('keep.tmp_as_case_left_it', sorted(st['tmp']), f['tmp'])
                if f['act'] != sorted(st['act']):
                    bad('keep.act_as_case_left_it', sorted(st['act']), f['act'])
                if st['result'] and f['result_files'] != exp_result_files:
                    bad('keep.result_holds_action_output', exp_result_files, f['result_files'])
                if st['result'] is False and f['result'] != []:
                    bad('keep.result_empty_without_act', [], f['result'])
        else:
            if out != '':
                bad('keep.no_path_without_sandbox', '', out)
            if hist['leftover']:
                bad('keep.nothing_created_without_sandbox', [], hist['leftover'])
    else:
        if hist['leftover']:
            bad('removal.sandbox_removed', [], hist['leftover'])
    return V


def _envd(d):
    return dict(d or {})


def signature(plan, hist):
    if plan.get('mode') == 'disk':
        return diskmode.signature(plan, hist)
    _, sig = c01.signature(plan, hist)
    nontrivial = hist['n_sandboxes'] > 0 or bool(hist['fired_all'])
    la = plan.get('launch') or {}
    return nontrivial, (plan['keep'], bool(la.get('elsewhere')), bool(la.get('pp'))) + tuple(sig) + (tuple(hist.get('kinds', [])),)


def sample_view(plan, hist):
    if plan.get('mode') == 'disk':
        return diskmode.sample_view(plan, hist)
    return {'case_text': hist['text'], 'argv': hist['result']['argv'], 'exit': hist['result']['exit'],
            'stdout': hist['result']['stdout'].replace(hist['sbx_path'] or '\0', '$SBX'),
            'events': [(e['kind'], e['id'], e['cwd'], (e.get('obs') or {}).get('tmp'), (e.get('obs') or {}).get('result'))
                       for e in hist['events']],
            'fired': [(f['id'], f['step'], f['kind']) for f in hist['fired_all']],
            'leftover_in_tmp_parent': hist['leftover'], 'final': hist['final']}


normalize = c01.normalize
