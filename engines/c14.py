"""C14 — A text has one value however it is consumed.

Workload A (object level, the observation point the property names): a StringSource built by the public parser
from generated syntax (literal, -contents-of FILE, -stdout-from program, optionally a chain of transformers from
both caching families), resolved against a real sandbox with ApplicationEnvironment(mem_buff_size = knob), then
a random sequence of accesses (as_str, as_lines complete / abandoned after k lines, as_file, write_to a real file
/ a SpooledTextFile, may_depend_on_external_resources, freeze, re-fetched or stale contents objects).
The quantifier is over orders of access before and after freezing (a history), a tuning knob (every buffer size
from 1 upwards) and a peer that may answer differently each time (a `varying` program, which freezing must pin).
Workload B (CLI level): metamorphic families that must give one verdict within a run and across knob values.
"""
import os

from sim import kernel, world as world_mod, patches, host

PROPERTY = 'C14'
LEVEL = 'exploration'
RULE_TEXT = ('runs = seeded random: workload A = (text over an alphabet with 2-/3-/4-byte characters, CR, CR LF, VT, FF, '
             'FS, GS, RS, NEL, U+2028; lengths straddling the buffer size; source kind in {literal, file, program, varying '
             'program}; chain of <= 3 transformers from 12; <= 10 accesses; buffer knob in {1,2,3,5,8,13,64,8192}); '
             'workload B = (text, matcher, 3 actual-source kinds x 3 wrappings x 2 knobs = 18 CLI runs per plan, expected '
             'text from literal / file / program). Non-trivial = at least two value-returning accesses (A) or a complete '
             'family (B) were compared; distinct = (workload, source kind, transformer chain, access sequence, buffer '
             'class relative to the text length, character classes present).')
REACH_PROBES = ['C_one_transformer_many_texts', 'A_cr_put_into_a_text_held_in_memory', 'C_one_equals_matcher_many_texts', 'B_actual_from_a_program_that_varies', 'literal_as_here_document', 'A_literal', 'A_file', 'A_program', 'A_varying_program', 'A_freeze_then_access', 'A_access_then_freeze',
                'A_partial_lines', 'A_text_longer_than_buffer', 'A_text_fits_buffer',
                'A_multibyte', 'A_cr', 'A_unicode_line_separators', 'A_no_final_newline', 'A_empty_text',
                'A_family_line_based', 'A_family_cached', 'A_run_transformer', 'A_write_to_spooled', 'A_as_file',
                'A_default_buffer', 'A_text_longer_than_64k', 'B_family', 'B_texts_differ_by_one_long_last_line', 'B_expected_differs_in_one_character_same_size', 'B_operand_after_transformation', 'B_transformed_operand_is_empty', 'B_equals_file_vs_file', 'B_equals_program', 'B_line_end_variant',
                'B_multibyte', 'spooled_rollover']

SAFE = ['a', 'b', ' ', '\n', '\n', '.', '\t', 'c']
MULTI = ['é', '中', '😀']
SEPS = ['\x0b', '\x0c', '\x1c', '\x1d', '\x1e', '\x85', ' ']
CR = ['\r', '\r\n']
KNOBS = [1, 2, 3, 5, 8, 13, 64, 8192]

# transformer id -> (syntax, family)
TRANSFORMERS = {
    'identity': ('identity', 'line'),
    'upper': ('char-case -to-upper', 'line'),
    'strip_nl': ('strip -trailing-new-lines', 'line'),
    'replace_ab': ('replace a b', 'line'),
    'replace_none': ('replace zzz y', 'line'),
    'filter_all': ('filter line-num >= 1', 'cached'),
    'filter_all_contents': ("filter contents matches ''", 'cached'),
    'filter_nums_all': ('filter -line-nums 1:', 'cached'),
    'filter_nums_from2': ('filter -line-nums 2:', 'cached'),
    'filter_first': ('filter line-num == 1', 'cached'),
    'filter_nums_last': ('filter -line-nums -1', 'cached'),
    'run_cat': ('run % cat', 'cached'),
    'run_cat_ignore': ('run -ignore-exit-code % cat', 'cached'),
    'lower': ('char-case -to-lower', 'line'),
    'strip': ('strip', 'line'),
    'strip_trailing_space': ('strip -trailing-space', 'line'),
    'grep_b': ('grep b', 'cached'),
    'grep_full_none': ('grep -full zzz', 'cached'),
    'replace_b_newline': ("replace b '\\n'", 'line'),
    'replace_preserve': ('replace -preserve-new-lines a b', 'line'),
    'filter_nums_multi': ('filter -line-nums 1 3:', 'cached'),
    'filter_nums_but_last': ('filter -line-nums :-2', 'cached'),
    'replace_dirs': ('replace-test-case-dirs', 'line'),
    # a program with a stdin of its own: "the text to transform is appended to that stdin" - a concatenation of a
    # constant part and the (possibly fd-written) model
    'run_cat_with_own_stdin': ('run % cat\n  -stdin "hdr-"', 'cached'),
    'run_cat_with_own_heredoc_stdin': ('run % cat\n  -stdin <<EOF\nline of the program\nEOF', 'cached'),
    'filter_nums_first_and_last': ('filter -line-nums 1 -1', 'cached'),
    'filter_nums_2_and_last_two': ('filter -line-nums 2 -2:', 'cached'),
}


def ref_lines(t):
    out, cur = [], ''
    for ch in t:
        cur += ch
        if ch == '\n':
            out.append(cur)
            cur = ''
    if cur:
        out.append(cur)
    return out


CR_IN_MEMORY = ('replace c \'\\r\'', 'line')  # puts a CR into a text that is held in memory (variant cr_in_memory of workload A)


def translate(t):
    return t.replace('\r\n', '\n').replace('\r', '\n')


def apply_transformer(tid, t):
    if tid == 'replace_c_cr':
        return t.replace('c', '\r')
    if tid in ('identity', 'replace_none', 'filter_all', 'filter_all_contents', 'filter_nums_all', 'run_cat',
               'run_cat_ignore', 'replace_dirs'):
        return t
    if tid == 'run_cat_with_own_stdin':
        return 'hdr-' + t
    if tid == 'run_cat_with_own_heredoc_stdin':
        return 'line of the program\n' + t
    if tid == 'lower':
        return t.lower()
    if tid == 'strip':
        return t.strip()
    if tid == 'strip_trailing_space':
        return t.rstrip()
    if tid == 'replace_b_newline':
        return t.replace('b', '\n')
    if tid == 'replace_preserve':
        return t.replace('a', 'b')
    if tid == 'grep_full_none':
        return ''
    if tid == 'grep_b':
        return ''.join(l for l in ref_lines(t) if 'b' in l)
    if tid == 'filter_nums_multi':
        ls_ = ref_lines(t)
        return ''.join(ls_[:1] + ls_[2:])
    if tid == 'filter_nums_but_last':
        return ''.join(ref_lines(t)[:-1])
    if tid in ('filter_nums_first_and_last', 'filter_nums_2_and_last_two'):
        ls_ = ref_lines(t)
        n = len(ls_)
        want = {1, n} if tid == 'filter_nums_first_and_last' else ({2} | {n - 1, n})
        return ''.join(l for i, l in enumerate(ls_, 1) if i in want)
    if tid == 'upper':
        return t.upper()
    if tid == 'strip_nl':
        return t.rstrip('\n')
    if tid == 'replace_ab':
        return t.replace('a', 'b')
    ls = ref_lines(t)
    if tid == 'filter_nums_from2':
        return ''.join(ls[1:])
    if tid == 'filter_first':
        return ''.join(ls[:1])
    if tid == 'filter_nums_last':
        return ''.join(ls[-1:])
    raise KeyError(tid)


def gen_text(g, knob, classes):
    alpha = list(SAFE)
    if 'multi' in classes:
        alpha += MULTI
    if 'seps' in classes:
        alpha += SEPS
    if 'cr' in classes:
        alpha += CR
    base = knob if knob <= 64 else g.choice([5, 64])
    n = max(0, g.choice([0, 1, base - 1, base, base + 1, 3 * base, g.randint(0, 3 * base + 2)]))
    return ''.join(g.choice(alpha) for _ in range(n))


def total_runs(tier):
    return 5600 if tier == 'quick' else 200000


def make_plan(i, master, tier):
    seed = kernel.run_seed(master, PROPERTY, i)
    g = kernel.stream(seed, 'gen')
    if i % 7 == 6:
        return plan_b(seed, tier, g)
    if i % 7 == 5:
        return plan_c(seed, tier, g)
    return plan_a(seed, tier, g)


def plan_c_equals(seed, tier, g):
    """Workload C with ONE `equals -contents-of FILE` matcher object applied to several texts in turn: the texts are held
    in memory when compared (transformed, then cached for `&&`), the expected text is on disk and has several lines;
    some texts are much shorter than the expected one, one equals it, some are longer.  What the matcher has read of
    the expected text for one file is no business of the next."""
    line = lambda: ''.join(g.choice('abcxyz .') for _ in range(g.randint(30, 70))) + '\n'  # noqa: E731
    E = ''.join(line() for _ in range(g.randint(3, 6)))
    texts = []
    n_files = g.randint(2, 4)
    for _ in range(n_files):
        kind = g.choice(['short', 'short', 'equal', 'longer', 'prefix'])
        texts.append({'short': E.split('\n')[0][:10] + '\n', 'equal': E, 'longer': E + line(),
                      'prefix': ''.join(E.splitlines(True)[:2])}[kind])
    if g.random() < 0.7 and E not in texts:
        texts[g.randrange(1, n_files)] = E  # (never the first file alone: a shorter text is tested before it)
    # the transformer decides how the text is held when it is compared (the output of `filter` is held in memory)
    chain = g.choice([['filter_all'], ['filter_all_contents'], ['upper'], ['filter_all', 'upper'], ['identity']])
    return {'format': 1, 'property': PROPERTY, 'engine': 'c14', 'run_seed': seed, 'tier': tier, 'workload': 'C',
            'knobs': {'mem_buff_size': g.choice([1, 64, 8192, 8192])}, 'entry': 'cli', 'texts': texts, 'chain': chain,
            'k': 0, 'classes': [], 'sweep': False, 'equals_expected': _apply_chain(chain, E)}


def plan_c(seed, tier, g):
    """Workload C: ONE transformer (and matcher) object consumes several texts in turn (files of a directory under a
    quantifier): the value of each transformed text must not depend on which texts were consumed before it."""
    if kernel.stream(seed, 'c-variant').random() < 0.3:
        return plan_c_equals(seed, tier, g)
    classes = g.choice([[], [], ['multi'], ['seps']])
    alpha = list(SAFE) + (MULTI if 'multi' in classes else []) + (SEPS if 'seps' in classes else [])
    n_files = g.randint(2, 4)
    texts = []
    for _ in range(n_files):
        texts.append(''.join(g.choice(alpha) for _ in range(g.choice([0, 1, 3, 8, 20, 40]))))
    stateful = ['filter_nums_first_and_last', 'filter_nums_2_and_last_two', 'filter_nums_but_last', 'filter_nums_last',
                'filter_nums_multi', 'filter_nums_from2', 'filter_first', 'grep_b', 'filter_all']
    chain = [g.choice(stateful)]
    if g.random() < 0.4:
        chain.insert(g.randint(0, 1), g.choice(sorted(TRANSFORMERS)))
    counts = [len(ref_lines(_apply_chain(chain, translate(t)))) for t in texts]
    k = g.choice(counts + [max(counts) + 1])
    return {'format': 1, 'property': PROPERTY, 'engine': 'c14', 'run_seed': seed, 'tier': tier, 'workload': 'C',
            'knobs': {'mem_buff_size': g.choice([1, 3, 8, 64, 8192])}, 'entry': 'cli', 'texts': texts, 'chain': chain,
            'k': k, 'classes': classes, 'sweep': False}


def _apply_chain(chain, t):
    for c in chain:
        t = apply_transformer(c, t)
    return t


def plan_a_cr_in_memory(seed, tier, g):
    """Workload A, variant: a transformer argument puts a CR into a text that is held in memory (`replace c '\\r'`).  What such
    a text looks like when it is read back from a file is the subject of the known finding about CR; judged here is only
    what the statement says whatever CR means: the whole-string view is the same before and after the text has been consumed
    as a file or cached, the lines are a division of that string, the file views agree with it up to new-line translation.
    The buffer is large (the cached text stays in memory)."""
    T = ''.join(g.choice(['a', 'b', 'c', 'c', ' ', '\n', '.']) for _ in range(g.choice([1, 3, 8, 20, 40])))
    kind = g.choice(['lit', 'file', 'prog'])
    chain = ([g.choice(['identity', 'upper', 'replace_ab', 'filter_all'])] if g.random() < 0.4 else []) + ['replace_c_cr']
    ops = []
    for _ in range(g.randint(3, 9)):
        op = g.choice(['str', 'str', 'lines', 'lines', 'file', 'file', 'write_file', 'freeze', 'refetch'])
        ops.append([op])
    return {'format': 1, 'property': PROPERTY, 'engine': 'c14', 'run_seed': seed, 'tier': tier, 'workload': 'A',
            'knobs': {'mem_buff_size': 8192}, 'entry': 'object', 'T': T, 'kind': kind, 'chain': chain, 'ops': ops,
            'classes': [], 'sweep': False, 'cr_in_memory': True}


def plan_a(seed, tier, g):
    if kernel.stream(seed, 'a-variant').random() < 0.06:
        return plan_a_cr_in_memory(seed, tier, g)
    knob = g.choice(KNOBS)
    classes = g.choice([[], [], ['multi'], ['seps'], ['cr'], ['multi', 'seps'], ['multi', 'cr'], ['multi', 'seps', 'cr']])
    kind = g.choice(['lit', 'file', 'file', 'prog', 'prog', 'varying'])
    if kind == 'lit':
        classes = [c for c in classes if c != 'cr']  # a literal can never contain CR: case files are read in text mode
    T = gen_text(g, knob, classes)
    if g.random() < 0.012:
        # a text longer than any read-ahead or chunk size one might think of (2**16 characters and some)
        unit = gen_text(g, 64, classes) or 'line\n'
        T = (unit * (70000 // len(unit) + 1))[:g.choice([65536, 65537, 70000])] + g.choice(['', '\n', 'tail'])
    chain = [g.choice(sorted(TRANSFORMERS)) for _ in range(g.choice([0, 0, 1, 1, 2, 3]))]
    nops = g.randint(2, 10)
    ops = []
    for _ in range(nops):
        op = g.choice(['str', 'lines', 'lines', 'lines_part', 'file', 'write_file', 'write_spooled', 'freeze', 'ext',
                       'refetch'])
        if op == 'lines_part':
            ops.append(['lines_part', g.randint(0, 3)])
        else:
            ops.append([op])
    plan = {'format': 1, 'property': PROPERTY, 'engine': 'c14', 'run_seed': seed, 'tier': tier, 'workload': 'A',
            'knobs': {'mem_buff_size': knob}, 'entry': 'object', 'T': T, 'kind': kind, 'chain': chain, 'ops': ops,
            'classes': classes, 'sweep': False}
    if kind == 'lit' and not chain and heredoc_able(T) and kernel.stream(seed, 'form').random() < 0.6:
        plan['lit_form'] = 'heredoc'  # the literal is written as a here-document
    return plan


def plan_b(seed, tier, g):
    if kernel.stream(seed, 'varying').random() < 0.12:
        return plan_b_varying(seed, tier, g)
    classes = g.choice([[], ['multi'], ['seps'], ['cr'], ['multi', 'seps']])
    alpha = list(SAFE) + (MULTI if 'multi' in classes else []) + (SEPS if 'seps' in classes else []) + \
        (CR if 'cr' in classes else [])
    T = ''.join(g.choice(alpha) for _ in range(g.choice([0, 1, 2, 5, 9, 20, 70])))
    # "or any of these after transformation": the operand of the assertion is the text after a chain of transformers
    # (whose result is what gets cached for reuse by `( M && M )`); often one whose result is empty or a single line
    pre = []
    if 'cr' not in classes and g.random() < 0.5:
        pre = [g.choice(sorted(TRANSFORMERS) + ['grep_full_none', 'grep_b', 'filter_first'])
               for _ in range(g.choice([1, 1, 2]))]
    X = _apply_chain(pre, translate(T))
    nl = len(ref_lines(X))
    mk = g.choice(['num_lines', 'is_empty', 'equals_file', 'equals_prog', 'equals_lit', 'any_line', 'every_line',
                   'grep_num_lines'])
    other = None
    if mk == 'num_lines':
        k = g.choice([nl, nl, nl + 1, max(0, nl - 1)])
        m = {'kind': mk, 'n': k}
    elif mk in ('is_empty', 'any_line', 'every_line'):
        m = {'kind': mk}
    elif mk == 'grep_num_lines':
        k0 = sum(1 for l in ref_lines(X) if 'a' in l)
        m = {'kind': mk, 'n': g.choice([k0, k0, k0 + 1])}
    else:
        r = g.random()
        T_ = X if pre else T
        same_size = [k for k, ch in enumerate(T_) if ch in SAFE and ch not in '\n\r']
        long_line = 'L' * g.choice([101, 102, 151, 400]) + g.choice(['\n', ''])
        if r < 0.08 and not pre:
            # the actual text is the expected one followed by one long line (longer than any look-ahead)
            other = T
            T = T + ('' if (T.endswith('\n') or not T) else '\n') + long_line
        elif r < 0.16:
            # ... and the other way round
            other = T_ + ('' if (T_.endswith('\n') or not T_) else '\n') + long_line
        elif r < 0.5:
            other = T_
        elif r < 0.62 and same_size:
            # a text of the same size (in bytes) that differs in one character
            k = g.choice(same_size)
            other = T_[:k] + ('q' if T_[k] != 'q' else 'z') + T_[k + 1:]
        elif r < 0.75:
            other = T_ + 'x'
        elif r < 0.9 and '\n' in T_:
            other = translate(T_).replace('\n', '\r\n')  # same text, other line-end convention
        else:
            other = 'y' + T_
        if mk == 'equals_lit' and ('\r' in other or "'" in other):
            mk = 'equals_file'
        m = {'kind': mk, 'other': other}
        if mk == 'equals_lit' and heredoc_able(other) and g.random() < 0.5:
            m['form'] = 'heredoc'  # the literal is written as a here-document: every line as it stands, white space included
    knobs = g.sample([1, 3, 8, 64, 8192], 2)
    return {'format': 1, 'property': PROPERTY, 'engine': 'c14', 'run_seed': seed, 'tier': tier, 'workload': 'B',
            'knobs': {'mem_buff_size': knobs[0]}, 'knob_list': knobs, 'entry': 'cli', 'T': T, 'matcher': m,
            'classes': classes, 'sweep': False, 'pre': pre}


def plan_b_varying(seed, tier, g):
    """The actual text is the output of a transformer program (`-transformed-by run`, evaluated lazily) that writes something else every time it is started (first line
    `v<n>` in its n-th run): however the matcher is written - M, identity, ( M && M ), ( M || M ) - every part of it
    must see the text of ONE run, the first.  M = 'some line is v1'."""
    T = ''.join(g.choice(SAFE) for _ in range(g.choice([0, 1, 5, 20])))
    knobs = g.sample([1, 3, 8, 64, 8192], 2)
    return {'format': 1, 'property': PROPERTY, 'engine': 'c14', 'run_seed': seed, 'tier': tier, 'workload': 'B',
            'knobs': {'mem_buff_size': knobs[0]}, 'knob_list': knobs, 'entry': 'cli', 'T': T,
            'matcher': {'kind': 'first_invocation'}, 'classes': [], 'sweep': False, 'pre': [], 'varying': True}


# ----------------------------------------------------------------------------- execute A

def _syntax_a(plan):
    T, kind = plan['T'], plan['kind']
    if kind == 'lit' and plan.get('lit_form') == 'heredoc' and heredoc_able(T) and not plan['chain']:
        syntax = '<<EOF\n' + T + 'EOF\n'
    elif kind == 'lit':
        syntax = "'" + T + "'"
    elif kind == 'file':
        syntax = '-contents-of src.txt'
    else:
        syntax = '-stdout-from % p1\n'
    chain = plan['chain']
    if chain:
        parts = []
        for c in chain:
            syn = TRANSFORMERS[c][0] if c != 'replace_c_cr' else CR_IN_MEMORY[0]
            parts.append(syn + ('\n' if syn.startswith('run') or syn.startswith('filter -line-nums') else ''))
        syntax += ' -transformed-by ( ' + ' | '.join(parts) + ' )'
    return syntax


def expected_a(plan, n_invocation=1):
    T, kind = plan['T'], plan['kind']
    if kind == 'varying':
        T = 'v%d\n%s' % (n_invocation, T)
    x = T if kind == 'lit' else translate(T)
    for c in plan['chain']:
        x = apply_transformer(c, x)
    return x


def execute(plan, scratch):
    if plan['workload'] == 'B':
        return execute_b(plan, scratch)
    if plan['workload'] == 'C':
        return execute_c(plan, scratch)
    w = world_mod.World(os.path.join(scratch, 'w'))
    T, kind = plan['T'], plan['kind']
    procs = {'cat': {'cat': True, 'exit': 0}}
    if kind == 'file':
        w.write('home/src.txt', data=T.encode('utf-8'))
    elif kind == 'prog':
        procs['p1'] = {'exit': 0, 'stdout': T}
    elif kind == 'varying':
        procs['p1'] = {'exit': 0, 'stdout': 'v{n}\n' + T, 'varying': True}
    plan2 = dict(plan, procs=procs)
    sim = kernel.Sim(plan2, w)
    obs = []
    info = {'parse_error': None, 'reps': [], 'rollovers': 0}
    with patches.installed(sim):
        try:
            _run_object(plan, w, sim, obs, info)
        except kernel.HarnessAbort as ex:
            raise kernel.HarnessError('harness bug inside Exactly:\n%s' % ex)
        digest = kernel.digest([sim.events, obs])
    n_p1 = sum(1 for s in sim.spawns if s['tag'] == 'p1')
    hist = {'obs': obs, 'info': info, 'n_p1': n_p1, 'spawn_seq': [(s['tag'], s['seq']) for s in sim.spawns],
            'digest': digest, 'sim_seconds': sim.clock.advanced, 'syntax': _syntax_a(plan)}
    _probes_a(plan, hist)
    w.destroy()
    return hist


def _run_object(plan, w, sim, obs, info):
    import pathlib
    from exactly_lib.common import tmp_dir_file_spaces
    from exactly_lib.impls.os_services import os_services_access
    from exactly_lib.impls.types.string_source import parse as ss_parse
    from exactly_lib.section_document.parse_source import ParseSource
    from exactly_lib.tcfs import sds as sds_mod
    from exactly_lib.tcfs.hds import HomeDs
    from exactly_lib.tcfs.tcds import TestCaseDs
    from exactly_lib.test_case.app_env import ApplicationEnvironment
    from exactly_lib.util.file_utils import spooled_file
    from exactly_lib.util.process_execution.execution_elements import ProcessExecutionSettings
    from exactly_lib.util.symbol_table import SymbolTable
    knob = plan['knobs']['mem_buff_size']
    home = pathlib.Path(w.home)
    sbx = w.new_sandbox()
    sds = sds_mod.construct_at(sbx)
    tcds = TestCaseDs(HomeDs(home, home), sds)
    os.chdir(str(sds.act_dir))
    syntax = _syntax_a(plan)
    try:
        sdv = ss_parse.default_parser_for(phase_is_after_act=False).parse(ParseSource(syntax))
    except Exception as ex:
        info['parse_error'] = '%s: %s' % (type(ex).__name__, str(ex)[:200])
        return
    ddv = sdv.resolve(SymbolTable({}))
    # the validation steps that always precede the use of a value in a real execution
    for r in (ddv.validator.validate_pre_sds_if_applicable(tcds.hds), ddv.validator.validate_post_sds_if_applicable(tcds)):
        if r is not None:
            info['parse_error'] = 'validation error'
            return
    adv = ddv.value_of_any_dependency(tcds)
    space = tmp_dir_file_spaces.std_tmp_dir_file_space(sds.internal_tmp_dir / 'c14')
    env = ApplicationEnvironment(os_services_access.new_for_current_os(),
                                 ProcessExecutionSettings.with_environ(dict(os.environ)), space, knob)
    # reach probe (not an oracle): count rollovers of the spooled buffer
    orig_rollover = getattr(spooled_file.SpooledTextFile, '_rollover', None)
    if orig_rollover is not None:
        def counting(self_, *a, **k):
            info['rollovers'] += 1
            return orig_rollover(self_, *a, **k)
        spooled_file.SpooledTextFile._rollover = counting
    try:
        src = adv.primitive(env)
        contents = src.contents()
        frozen_at = None
        n_file = 0
        for i, op in enumerate(plan['ops']):
            k = op[0]
            spawns_before = len(sim.spawns)
            try:
                contents = src.contents()  # "the returned object must not be stored as a constant representation"
                if k == 'refetch':
                    continue
                if k == 'freeze':
                    src.freeze()
                    obs.append({'op': 'freeze', 'i': i, 'at_spawn': len(sim.spawns)})
                    continue
                if k == 'ext':
                    v = bool(contents.may_depend_on_external_resources)
                    obs.append({'op': 'ext', 'i': i, 'v': v})
                    continue
                if k == 'str':
                    v = contents.as_str
                elif k == 'lines':
                    with contents.as_lines as ls:
                        v = list(ls)
                elif k == 'lines_part':
                    v = []
                    with contents.as_lines as ls:
                        for j, line in enumerate(ls):
                            if j >= op[1]:
                                break
                            v.append(line)
                elif k == 'file':
                    p = contents.as_file
                    with p.open() as f:
                        v = f.read()
                elif k == 'write_file':
                    n_file += 1
                    p = pathlib.Path(w.io) / ('target%d.txt' % n_file)
                    with p.open('w') as f:
                        contents.write_to(f)
                    with p.open() as f:
                        v = f.read()
                elif k == 'write_spooled':
                    n_file += 1
                    d = pathlib.Path(w.io)
                    with spooled_file.SpooledTextFile(knob, lambda: d / ('spool%d.txt' % n_file)) as f:
                        contents.write_to(f)
                        f.seek(0)
                        v = f.read()
                else:
                    raise kernel.HarnessAbort('unknown op ' + k)
                obs.append({'op': k, 'i': i, 'v': v, 'arg': op[1] if len(op) > 1 else None,
                            'spawned': [s['n'] for s in sim.spawns[spawns_before:] if s['tag'] == 'p1']})
            except (kernel.HarnessAbort, kernel.SimHang, kernel.SeamEscape):
                raise
            except Exception as ex:
                obs.append({'op': k, 'i': i, 'exc': '%s: %s' % (type(ex).__name__, str(ex)[:160]),
                            'spawned': [s['n'] for s in sim.spawns[spawns_before:] if s['tag'] == 'p1']})
        try:
            info['reps'].append(type(src.contents()).__name__)
        except Exception:
            pass
    finally:
        if orig_rollover is not None:
            spooled_file.SpooledTextFile._rollover = orig_rollover
        os.chdir(w.home)


def _probes_a(plan, hist):
    pr = {}
    kind = plan['kind']
    pr[{'lit': 'A_literal', 'file': 'A_file', 'prog': 'A_program', 'varying': 'A_varying_program'}[kind]] = 1
    if plan.get('cr_in_memory'):
        pr['A_cr_put_into_a_text_held_in_memory'] = 1
    if plan.get('lit_form') == 'heredoc' and heredoc_able(plan['T']) and not plan['chain']:
        pr['literal_as_here_document'] = 1
    ops = [o[0] for o in plan['ops']]
    value_ops = ('str', 'lines', 'lines_part', 'file', 'write_file', 'write_spooled')
    if 'freeze' in ops:
        fi = ops.index('freeze')
        if any(o in value_ops for o in ops[fi + 1:]):
            pr['A_freeze_then_access'] = 1
        if any(o in value_ops for o in ops[:fi]):
            pr['A_access_then_freeze'] = 1
    if 'lines_part' in ops:
        pr['A_partial_lines'] = 1
    knob = plan['knobs']['mem_buff_size']
    n = len(expected_a(plan))
    pr['A_text_longer_than_buffer' if n > knob else 'A_text_fits_buffer'] = 1
    T = plan['T']
    if any(c in T for c in MULTI):
        pr['A_multibyte'] = 1
    if '\r' in T:
        pr['A_cr'] = 1
    if any(c in T for c in SEPS):
        pr['A_unicode_line_separators'] = 1
    if T and not T.endswith('\n'):
        pr['A_no_final_newline'] = 1
    if T == '':
        pr['A_empty_text'] = 1
    fams = {TRANSFORMERS[c][1] if c != 'replace_c_cr' else 'line' for c in plan['chain']}
    if 'line' in fams:
        pr['A_family_line_based'] = 1
    if 'cached' in fams:
        pr['A_family_cached'] = 1
    if 'run_cat' in plan['chain']:
        pr['A_run_transformer'] = 1
    if 'write_spooled' in ops:
        pr['A_write_to_spooled'] = 1
    if 'file' in ops:
        pr['A_as_file'] = 1
    if knob == 8192:
        pr['A_default_buffer'] = 1
    if len(plan['T']) >= 65536:
        pr['A_text_longer_than_64k'] = 1
    if hist['info']['rollovers']:
        pr['spooled_rollover'] = 1
    hist['probes'] = pr
    hist['armed'] = {'knob_%d' % knob: 1}
    hist['fired'] = {}


# ----------------------------------------------------------------------------- execute B

def _matcher_syntax(m, w):
    k = m['kind']
    if k == 'num_lines':
        return 'num-lines == %d' % m['n']
    if k == 'is_empty':
        return 'is-empty'
    if k == 'any_line':
        return 'any line : contents matches a'
    if k == 'every_line':
        return 'every line : contents matches a'
    if k == 'grep_num_lines':
        return '-transformed-by grep a num-lines == %d' % m['n']
    if k == 'first_invocation':
        return 'any line : contents matches ^v1$'
    if k == 'equals_file':
        return 'equals -contents-of -rel-home exp.txt'
    if k == 'equals_prog':
        return 'equals -stdout-from % expprog\n '
    if m.get('form') == 'heredoc' and heredoc_able(m['other']):
        return 'equals <<EOF\n%sEOF\n ' % m['other']
    return "equals '%s'" % m['other']


def heredoc_able(text: str) -> bool:
    """Can the text be written as a here-document (whose contents are its lines, each ended by a new-line)?"""
    # (characters that str.splitlines treats as line breaks are left to the quoted form: a here-document line that
    # consists of such a character alone is rejected by Exactly's tokenizer with "string index out of range" - string
    # syntax, property C09/C18, not judged here; noted in DESIGN §9.7)
    return (text == '' or text.endswith('\n')) and 'EOF' not in text.split('\n') and '\r' not in text and \
        not any(ch in text for ch in '\x0b\x0c\x1c\x1d\x1e\x85\u2028\u2029')


def expected_b(plan, src=None):
    T = _apply_chain(plan.get('pre') or [], translate(plan['T']))
    m = plan['matcher']
    if m['kind'] == 'first_invocation':
        # the text is the output of a transformer program that is started once per execution, whatever the form of the
        # matcher: every part of the matcher sees the output of that first run
        return True
    if m['kind'] == 'num_lines':
        return len(ref_lines(T)) == m['n']
    if m['kind'] == 'is_empty':
        return T == ''
    if m['kind'] == 'any_line':
        return any('a' in l for l in ref_lines(T))
    if m['kind'] == 'every_line':
        return all('a' in l for l in ref_lines(T))
    if m['kind'] == 'grep_num_lines':
        return sum(1 for l in ref_lines(T) if 'a' in l) == m['n']
    other = m['other'] if m['kind'] == 'equals_lit' else translate(m['other'])
    return other == T


def execute_b(plan, scratch):
    w = world_mod.World(os.path.join(scratch, 'w'))
    T, m = plan['T'], plan['matcher']
    w.write('home/actual.txt', data=T.encode('utf-8'))
    procs = {'actprog': {'exit': 0, 'stdout': T}, 'atc': {'exit': 0, 'stdout': T}, 'cat': {'cat': True, 'exit': 0}}
    if plan.get('varying'):
        # a transformer program that writes something else every time it is started (and does not read its stdin)
        procs['varyprog'] = {'exit': 0, 'stdout': 'v{n}\n' + T, 'varying': True}
    pre = plan.get('pre') or []
    if 'other' in m:
        w.write('home/exp.txt', data=m['other'].encode('utf-8'))
        procs['expprog'] = {'exit': 0, 'stdout': m['other']}
    M = _matcher_syntax(m, w)
    results = {}
    events = []
    sim_seconds = 0.0
    texts = {}
    for src in ('file', 'prog', 'atc'):
        for wrap in ('plain', 'identity', 'andand', 'oror'):
            mm = {'plain': M, 'identity': '-transformed-by identity ' + M, 'andand': '( %s && %s )' % (M, M),
                  'oror': '( %s || %s )' % (M, M)}[wrap]
            if pre:
                mm = '-transformed-by ' + _chain_syntax(pre) + ' ' + mm
            if plan.get('varying'):
                mm = '-transformed-by run % varyprog\n  ' + mm
            if src == 'file':
                instr = 'contents -rel-home actual.txt : ' + mm
            elif src == 'prog':
                instr = 'stdout -from % actprog\n  ' + mm
            else:
                instr = 'stdout ' + mm
            text = '[act]\n% atc\n[assert]\n' + instr + '\n'
            texts['%s/%s' % (src, wrap)] = text
            for knob in plan['knob_list']:
                w.write('home/t.case', text)
                sim = kernel.Sim(dict(plan, procs=procs), w)
                with patches.installed(sim):
                    res = host.run_cli(sim, ['t.case'], knob=knob)
                results['%s/%s/%d' % (src, wrap, knob)] = {'exit': res['exit'], 'ident': res['stdout'].strip(),
                                                           'err': res['stderr'][:300] if res['exit'] not in (0, 32) else '',
                                                           'exception': res.get('exception')}
                events.append(sim.events)
                sim_seconds += sim.clock.advanced
    hist = {'results': results, 'texts': texts, 'digest': kernel.digest(events), 'sim_seconds': sim_seconds}
    pr = {'B_family': 1}
    if plan.get('varying'):
        pr['B_actual_from_a_program_that_varies'] = 1
    if m['kind'] == 'equals_file':
        pr['B_equals_file_vs_file'] = 1
    if m['kind'] == 'equals_prog':
        pr['B_equals_program'] = 1
    if 'other' in m and m['other'] != T and translate(m['other']) == translate(T):
        pr['B_line_end_variant'] = 1
    if any(c in T for c in MULTI):
        pr['B_multibyte'] = 1
    if 'other' in m and m['other'] != T and len(m['other'].encode('utf-8', 'surrogateescape')) == len(
            _apply_chain(pre, translate(T)).encode('utf-8', 'surrogateescape')):
        pr['B_expected_differs_in_one_character_same_size'] = 1
    if 'other' in m and ('L' * 101 in m['other']) != ('L' * 101 in T):
        pr['B_texts_differ_by_one_long_last_line'] = 1
    if pre:
        pr['B_operand_after_transformation'] = 1
        if _apply_chain(pre, translate(T)) == '':
            pr['B_transformed_operand_is_empty'] = 1
    hist['probes'] = pr
    hist['armed'] = {}
    hist['fired'] = {}
    w.destroy()
    return hist


def _chain_syntax(chain):
    parts = []
    for c in chain:
        syn = TRANSFORMERS[c][0]
        parts.append(syn + ('\n' if syn.startswith('run') or syn.startswith('filter -line-nums') else ''))
    return '( ' + ' | '.join(parts) + ' )'


def execute_c(plan, scratch):
    w = world_mod.World(os.path.join(scratch, 'w'))
    for i, t in enumerate(plan['texts']):
        w.write('home/d/f%d.txt' % i, data=t.encode('utf-8'))
    procs = {'cat': {'cat': True, 'exit': 0}, 'atc': {'exit': 0}}
    M = 'num-lines == %d' % plan['k']
    if plan.get('equals_expected') is not None:
        w.write('home/expected.txt', data=plan['equals_expected'].encode('utf-8'))
        M = '( ! is-empty && equals -contents-of -rel-home expected.txt )'
    setup = '[setup]\ndef text-transformer TT = %s\n' % _chain_syntax(plan['chain'])
    forms = {'every': 'dir-contents -rel-home d : every file : contents -transformed-by TT ' + M,
             'any': 'dir-contents -rel-home d : any file : contents -transformed-by TT ' + M}
    for i in range(len(plan['texts'])):
        forms['single%d' % i] = 'contents -rel-home d/f%d.txt : -transformed-by TT %s' % (i, M)
        forms['selection%d' % i] = 'dir-contents -rel-home d : -selection name f%d.txt every file : contents ' \
                                   '-transformed-by TT %s' % (i, M)
    results = {}
    events = []
    sim_seconds = 0.0
    for name in sorted(forms):
        text = setup + '[act]\n% atc\n[assert]\n' + forms[name] + '\n'
        w.write('home/t.case', text)
        sim = kernel.Sim(dict(plan, procs=procs), w)
        with patches.installed(sim):
            res = host.run_cli(sim, ['t.case'])
        results[name] = {'exit': res['exit'], 'ident': res['stdout'].strip(),
                         'err': res['stderr'][:300] if res['exit'] not in (0, 32) else ''}
        events.append(sim.events)
        sim_seconds += sim.clock.advanced
    hist = {'results': results, 'forms': forms, 'digest': kernel.digest(events), 'sim_seconds': sim_seconds,
            'probes': dict({'C_one_transformer_many_texts': 1}, **({'C_one_equals_matcher_many_texts': 1} if plan.get('equals_expected') is not None else {})),
            'armed': {}, 'fired': {}}
    w.destroy()
    return hist


def expected_c(plan):
    if plan.get('equals_expected') is not None:
        per = [_apply_chain(plan['chain'], translate(t)) == plan['equals_expected'] for t in plan['texts']]
        exp = {'every': all(per), 'any': any(per)}
        for i, v in enumerate(per):
            exp['single%d' % i] = v
            exp['selection%d' % i] = v
        return exp
    per = [len(ref_lines(_apply_chain(plan['chain'], translate(t)))) == plan['k'] for t in plan['texts']]
    exp = {'every': all(per), 'any': any(per)}
    for i, v in enumerate(per):
        exp['single%d' % i] = v
        exp['selection%d' % i] = v
    return exp


# ----------------------------------------------------------------------------- oracle

def oracle(plan, hist):
    V = []

    def bad(rule, expected_, observed, **extra):
        V.append(dict(extra, rule='C14.' + rule, expected=expected_, observed=observed))

    if plan['workload'] == 'C':
        exp = expected_c(plan)
        wrong = {k: (v['ident'], v['err'][:120]) for k, v in hist['results'].items() if v['exit'] != (0 if exp[k] else 32)}
        if wrong:
            bad('C.value_of_a_text_depends_on_texts_consumed_before' if all(k in ('every', 'any') for k in wrong)
                else 'C.verdict', {k: ('PASS' if exp[k] else 'FAIL') for k in sorted(wrong)}, wrong,
                texts=plan['texts'], chain=plan['chain'], k=plan['k'])
        return V
    if plan['workload'] == 'B':
        want = expected_b(plan)
        if plan.get('varying'):
            wrong = {k: v for k, v in hist['results'].items() if v['exit'] != (0 if expected_b(plan, k.split('/')[0]) else 32)}
            if wrong:
                bad('B.every_part_of_a_matcher_sees_the_same_run_of_the_program', 'PASS in every form', {k: (v['ident'], v['err'][:120]) for k, v in sorted(wrong.items())[:6]})
            return V
        wrong = {k: v for k, v in hist['results'].items() if v['exit'] != (0 if want else 32)}
        if wrong:
            verdicts = sorted({v['ident'] for v in hist['results'].values()})
            rule = 'B.verdict_differs_between_forms' if len(verdicts) > 1 else 'B.verdict'
            bad(rule, {'verdict': 'PASS' if want else 'FAIL', 'T': plan['T'], 'matcher': plan['matcher']},
                {k: (v['ident'], v['err'][:120]) for k, v in sorted(wrong.items())[:6]},
                wrong_keys=sorted(wrong), all_keys=sorted(hist['results']))
        return V
    info = hist['info']
    if info['parse_error']:
        raise kernel.HarnessError('C14-A generated syntax that does not parse: %r: %s' % (hist['syntax'], info['parse_error']))
    if plan.get('cr_in_memory'):
        S = None
        for o in hist['obs']:
            if o['op'] in ('freeze', 'ext'):
                continue
            if 'exc' in o:
                bad('A.access_raises', 'a value', o['exc'], op=o['op'], i=o['i'])
                continue
            v, op = o['v'], o['op']
            if op == 'str':
                if S is None:
                    S = v
                elif v != S:
                    bad('A.whole_string_is_the_same_before_and_after_other_accesses', S, v, op=op, i=o['i'])
            elif S is not None and op == 'lines' and ''.join(v) != S:
                bad('A.lines_are_a_division_of_the_whole_string', S, v, op=op, i=o['i'])
            elif S is not None and op in ('file', 'write_file', 'write_spooled') and translate(v) != translate(S):
                bad('A.file_view_agrees_up_to_new_line_translation', translate(S), v, op=op, i=o['i'])
        return V
    kind = plan['kind']
    n_inv = max(hist['n_p1'], 1)
    cands = [expected_a(plan, n) for n in range(1, n_inv + 1)] if kind == 'varying' else [expected_a(plan)]
    frozen_value = None
    frozen = False
    spawns_at_freeze = None
    for o in hist['obs']:
        if o['op'] == 'freeze':
            if not frozen:
                frozen = True
                spawns_at_freeze = o['at_spawn']
            continue
        if o['op'] == 'ext':
            continue
        if 'exc' in o:
            bad('A.access_raises', 'a value', o['exc'], op=o['op'], i=o['i'])
            continue
        v = o['v']
        op = o['op']
        if op in ('lines', 'lines_part'):
            k = o.get('arg')
            matches = [c for c in cands if (ref_lines(c) == v if op == 'lines' else ref_lines(c)[:k] == v)]
        else:
            matches = [c for c in cands if c == v]
        if not matches:
            bad('A.lines' if op.startswith('lines') else 'A.characters',
                {'text': cands[0] if len(cands) == 1 else cands, 'lines': ref_lines(cands[0]) if op.startswith('lines') else None},
                v, op=op, i=o['i'], frozen=frozen)
            continue
        if kind == 'varying' and frozen:
            # after freeze(): one and the same invocation's text
            if frozen_value is None:
                frozen_value = set(matches)
            else:
                frozen_value &= set(matches)
                if not frozen_value:
                    bad('A.freeze_pins_one_value', 'every access after freeze() returns the same invocation', v,
                        op=op, i=o['i'])
    if kind in ('prog', 'varying') and frozen:
        after = [s for s in hist['spawn_seq'] if s[0] == 'p1']
        n_after = sum(1 for o in hist['obs'] if o.get('spawned') and _after_freeze(hist, o)
                      for _ in o['spawned'])
        if n_after > 1:
            bad('A.at_most_one_invocation_after_freeze', 1, n_after)
    return V


def _after_freeze(hist, o):
    fi = next((x['i'] for x in hist['obs'] if x['op'] == 'freeze'), None)
    return fi is not None and o['i'] > fi


def classify_known(plan, hist, violation, kf):
    m = kf.get('match', {})
    if plan['workload'] == 'C' or m.get('workload') != plan['workload']:
        return False
    if plan['workload'] == 'B' and m.get('kind') == 'cr_bytewise_file_comparison':
        # texts that differ only in line-end convention, compared file to file (filecmp compares bytes)
        mt = plan['matcher']
        if mt['kind'] not in ('equals_file', 'equals_prog') or 'other' not in mt:
            return False
        if not ('\r' in plan['T'] or '\r' in mt['other']):
            return False
        if translate(mt['other']) != _apply_chain(plan.get('pre') or [], translate(plan['T'])):
            return False
        # the model says PASS (equal after the one universal-newline translation); some forms say FAIL - none errs
        return all(hist['results'][k]['exit'] == 32 for k in violation.get('wrong_keys', []))
    return False


def signature(plan, hist):
    if plan['workload'] == 'C':
        return True, ('C', tuple(plan['chain']), tuple(len(ref_lines(t)) for t in plan['texts']), plan['k'],
                      plan['knobs']['mem_buff_size'])
    T = plan['T']
    cls = tuple(sorted({'multi' if any(c in T for c in MULTI) else '', 'cr' if '\r' in T else '',
                        'seps' if any(c in T for c in SEPS) else '', 'nofinalnl' if T and not T.endswith('\n') else ''}))
    if plan['workload'] == 'B':
        return True, ('B', plan['matcher']['kind'], cls, len(T) > 8, tuple(plan['knob_list']), tuple(plan.get('pre') or []))
    knob = plan['knobs']['mem_buff_size']
    n = len(T)
    rel = 'lt' if n < knob else ('eq' if n == knob else 'gt')
    value_obs = [o for o in hist['obs'] if o['op'] not in ('freeze', 'ext')]
    return len(value_obs) >= 2, ('A', plan['kind'], tuple(plan['chain']), tuple(o[0] for o in plan['ops']), rel, cls)


def sample_view(plan, hist):
    if plan['workload'] == 'C':
        return {'forms': hist['forms'], 'results': hist['results'], 'expected': expected_c(plan)}
    if plan['workload'] == 'B':
        return {'texts': dict(list(hist['texts'].items())[:3]), 'results': dict(list(hist['results'].items())[:6]),
                'expected_pass': expected_b(plan)}
    return {'syntax': hist['syntax'], 'knob': plan['knobs']['mem_buff_size'], 'expected_text': expected_a(plan),
            'obs': hist['obs'][:10], 'program_invocations': hist['n_p1']}


def normalize(plan):
    if plan['workload'] == 'C':
        return plan if len(plan['texts']) >= 1 and plan['chain'] else None
    if plan['workload'] == 'A':
        if not plan['ops']:
            return None
        if plan['kind'] == 'lit' and ('\r' in plan['T'] or "'" in plan['T']):
            return None
        return plan
    m = plan['matcher']
    if m['kind'] == 'equals_lit' and ('\r' in m.get('other', '') or "'" in m.get('other', '')):
        return None
    if len(plan.get('knob_list', [])) < 1:
        return None
    return plan
